import sys, io, contextlib, os, random
sys.path.insert(0,'/verif/proto'); import btorshim
import vsc
from vsc.model.rand_state import RandState
noise = os.environ.get("NOISE","0")=="1"
dbg = int(os.environ.get("DBG","0"))
@vsc.randobj
class Sub:
    def __init__(self):
        self.x = vsc.rand_bit_t(8); self.y=vsc.rand_bit_t(8)
    @vsc.constraint
    def c(self): self.x < self.y
@vsc.randobj
class A:
    def __init__(self):
        self.a = vsc.rand_bit_t(16); self.b = vsc.rand_bit_t(16); self.e=vsc.rand_int_t(8)
        self.s = vsc.rand_attr(Sub())
        self.l = vsc.rand_list_t(vsc.bit_t(8), 4)
        self.d = vsc.rand_bit_t(4)
    @vsc.constraint
    def c(self):
        self.a < self.b
        self.s.x != self.e
        vsc.unique(self.l)
        vsc.dist(self.d, [vsc.weight(1,1), vsc.weight((3,9),5)])
        vsc.solve_order(self.a, self.b)
        vsc.soft(self.e == 3)
if noise:
    junk=[object() for _ in range(10000)]; random.random()
o=A(); o.set_randstate(RandState.mkFromSeed(42))
if noise:
    o2=A(); 
out=[]
for i in range(12):
    if noise and i%3==0:
        with contextlib.redirect_stdout(io.StringIO()): o2.randomize(); random.randint(0,99)
    with contextlib.redirect_stdout(io.StringIO()):
        o.randomize(debug=dbg)
    out.append((o.a,o.b,o.e,o.s.x,o.s.y,tuple(o.l),o.d))
    if i==5: snap=o.get_randstate()
tail=out[6:]
o.set_randstate(snap)
rep=[]
for i in range(6):
    with contextlib.redirect_stdout(io.StringIO()): o.randomize()
    rep.append((o.a,o.b,o.e,o.s.x,o.s.y,tuple(o.l),o.d))
import hashlib
print(hashlib.md5(repr(out).encode()).hexdigest(), "replay_ok", rep==tail)
