---------------------------- MODULE Trace_Stab ----------------------------
(* Trace validation of multi-process runs against RandStability (C09).    *)
EXTENDS RandStability, Json, IOUtils, TLCExt
VARIABLES sid, l, S

Batch == JsonDeserialize(IOEnv.TRACE_FILE)
NS == Len(Batch.scenarios)
Scen(s) == Batch.scenarios[s]

Verdict(v) == TLCSet(1, Append(TLCGet(1), v))
Count(k) == TLCSet(k, TLCGet(k) + 1)

Init == /\ sid = 1 /\ l = 1 /\ S = EmptyState
        /\ TLCSet(1, << >>) /\ TLCSet(2, 0)

NextScenario == sid' = sid + 1 /\ l' = 1 /\ S' = EmptyState

Next ==
  /\ sid <= NS
  /\ LET sc == Scen(sid)  W == sc.world IN
     IF l > Len(sc.events)
     THEN Verdict(<<sc.id, "PASS", l - 1>>) /\ NextScenario
     ELSE LET ev == sc.events[l]  bad == Failed(Clauses(W, S, ev)) IN
          IF bad = {}
          THEN /\ S' = Effect(W, S, ev) /\ l' = l + 1 /\ sid' = sid /\ Count(2)
          ELSE Verdict(<<sc.id, "FAIL", l, ev.op, bad, [none |-> TRUE]>>) /\ NextScenario

Done == /\ PrintT(<<"VERDICTS", TLCGet(1)>>)
        /\ PrintT(<<"EVENTS_ACCEPTED", TLCGet(2)>>)
        /\ Len(TLCGet(1)) = NS
=============================================================================
