"""Fault families for C16 on flat worlds with lists, foreach, dist, solve_order, soft (constructs whose
elaboration rewrites the constraint tree or pushes extra scopes)."""
import random

from .worlds import F, B, E, lit, bits
from .fam_expr import fld, wcall, mcall


def world_rich(rnd):
    fields = [fld("a", 2, False), fld("b", 2, False), fld("k", 2, False, rand=False, init=1),
              {"name": "l", "kind": "list", "w": 2, "signed": False, "rand": True, "init": [0, 1, 2], "cap": 4},
              {"name": "nl", "kind": "list", "w": 2, "signed": False, "rand": False, "init": [1, 3], "cap": 4}]
    blocks = [
        {"name": "c1", "dynamic": False, "body": [E(B("le", F("a"), F("b")))]},
        {"name": "c2", "dynamic": False, "body": [{"k": "foreach", "l": "l", "v": "i", "it": True, "idx": False,
                                                    "body": [E(B("ne", {"k": "it", "v": "i", "p": ""}, F("k")))]}]},
        {"name": "c3", "dynamic": False, "body": [{"k": "order", "a": ["a"], "b": ["b"]}]},
        {"name": "c4", "dynamic": False, "body": [{"k": "soft", "e": B("eq", F("a"), lit(2))}]},
        {"name": "c5", "dynamic": False, "body": [E({"k": "in", "e": F("b"), "items": [{"k": "l", "p": "nl"}], "neg": False})]},
        {"name": "c6", "dynamic": False, "body": [E(B("ge", {"k": "sum", "l": "l"}, F("a")))]},
        # a SOFT constraint over the list sum: its solver nodes live outside the hard constraints of the set
        {"name": "c7", "dynamic": False, "body": [{"k": "soft", "e": B("le", {"k": "sum", "l": "l"}, lit(4))}]},
        # a dynamic block: its body is elaborated at construction too (and may raise there)
        {"name": "dd", "dynamic": True, "body": [E(B("ne", F("a"), F("b"))), E(B("le", F("b"), lit(3)))]},
    ]
    cb = True
    return {"classes": {"A": {"base": "", "cb": cb, "fields": fields, "blocks": blocks}},
            "population": [{"id": "o1", "cls": "A"}, {"id": "o2", "cls": "A"}, {"id": "o3", "cls": "A"}]}


def family_F(tier, seed, n=None):
    out = []
    n = n or (24 if tier == "quick" else 300)
    for t in range(n):
        core = t < n // 2
        rnd = random.Random((1616 if core else 8000 + seed) * 100003 + t)
        world = world_rich(rnd)
        ops = [{"op": "construct", "o": "o1"}]
        probe = {"op": "probe", "call": wcall([], "o1"), "paths": ["o1.a", "o1.b", "o1.l[0]", "o1.l[1]", "o1.l[2]"], "mode": "around", "nsol": 4,
                 "cap": 128}
        for i in range(rnd.randint(4, 8)):
            r = rnd.random()
            if r < 0.15:
                ops.append({"op": "set", "p": "o1.k", "v": bits(rnd.randrange(4), 2)})
            elif r < 0.3:
                # a call made unsatisfiable (with a foreach and a list in scope)
                c_ = wcall([E(B("lt", F("a"), F("a")))], "o1")
                if rnd.random() < 0.5:
                    c_["flags"] = {"solve_fail_debug": 1}      # the diagnostics pass re-solves subsets: it must leave no trace either
                ops.append({"op": "call", "call": c_})
            elif r < 0.65:
                call = rnd.choice([mcall("o1"), wcall([E(B("ne", F("a"), F("k")))], "o1"), wcall([E({"k": "dyn", "o": "", "b": "dd"})], "o1"),
                                   # the free-standing form vsc.randomize_with(o1): paths are absolute there
                                   {"kind": "free_with", "roots": ["o1"], "owner": "", "inline": [E(B("ne", F("o1.a"), F("o1.k"))), E(B("le", F("o1.b"), lit(3)))]},
                                   wcall([{"k": "foreach", "l": "l", "v": "j", "it": True, "idx": False,
                                           "body": [E(B("le", {"k": "it", "v": "j", "p": ""}, F("b")))]}], "o1")])
                op = {"op": "call", "call": call}
                ph = rnd.choice(["pre", "post", "body"])
                if ph == "body" and call["kind"] not in ("with", "free_with"):
                    ph = "post"
                op["fault"] = {"ph": "body", "pos": rnd.randint(0, len(call["inline"]))} if ph == "body" else {"ph": ph, "o": "o1"}
                ops.append(op)
            elif r < 0.8:
                ops.append({"op": "construct", "o": "o2" if not any(o.get("o") == "o2" for o in ops) else "o3",
                            "fault": {"cls": "A", "blk": rnd.choice(["c1", "c2", "c3", "c4", "c5", "c6", "dd", "dd"]), "pos": rnd.randint(0, 1)}})
                if sum(1 for o in ops if o["op"] == "construct") >= 3:
                    break
            else:
                ops.append({"op": "call", "call": mcall("o1")})
            if rnd.random() < 0.35:
                ops.append(probe)
        ops.append({"op": "call", "call": mcall("o1")})
        ops.append(probe)
        # drop duplicate constructs of the same id (a failed construct leaves the id unused but we keep ids unique)
        seen, clean = set(), []
        for o in ops:
            if o["op"] == "construct":
                if o["o"] in seen:
                    continue
                seen.add(o["o"])
            clean.append(o)
        out.append({"id": "F/%s/%d" % ("core" if core else "s%d" % seed, t), "world": world, "ops": clean, "tags": []})
    return out


def family_softlist(tier, seed, n=None):
    """soft constraints whose expression is a list aggregate (sum / product) that no hard constraint shares: after a failing
    call (with and without diagnostics) and after a faulted call the next call on the same object must work"""
    out = []
    n = n or (4 if tier == "quick" else 24)
    for t in range(n):
        rnd = random.Random(1660 + t + (seed if t >= n // 2 else 0) * 1000)
        agg = "sum" if t % 2 == 0 else "prod"
        fields = [fld("a", 2, False), fld("k", 2, False, rand=False, init=1),
                  {"name": "l", "kind": "list", "w": 2, "signed": False, "rand": True, "init": [1, 1, 2], "cap": 4}]
        blocks = [{"name": "c1", "dynamic": False, "body": [E(B("le", F("a"), lit(3))),
                                                             {"k": "foreach", "l": "l", "v": "i", "it": True, "idx": False,
                                                              "body": [E(B("gt", {"k": "it", "v": "i", "p": ""}, lit(0)))]}]},
                  {"name": "c2", "dynamic": False, "body": [{"k": "soft", "e": B("eq", {"k": agg, "l": "l"}, lit(rnd.choice([3, 4, 6])))}]}]
        world = {"classes": {"A": {"base": "", "cb": True, "fields": fields, "blocks": blocks}}, "population": [{"id": "o1", "cls": "A"}]}
        unsat = wcall([E(B("lt", F("a"), F("a")))], "o1")
        if t % 4 >= 2:
            unsat["flags"] = {"solve_fail_debug": 1}
        ops = [{"op": "construct", "o": "o1"}, {"op": "call", "call": mcall("o1")}, {"op": "call", "call": unsat}, {"op": "call", "call": mcall("o1")},
               {"op": "call", "call": mcall("o1"), "fault": {"ph": "post", "o": "o1"}}, {"op": "call", "call": mcall("o1")},
               {"op": "call", "call": unsat}, {"op": "call", "call": wcall([E(B("eq", {"k": "sub", "l": "l", "i": lit(0), "p": ""}, lit(3)))], "o1")},
               {"op": "probe", "call": wcall([], "o1"), "paths": ["o1.a", "o1.l[0]", "o1.l[1]", "o1.l[2]"], "mode": "around", "nsol": 3, "cap": 100}]
        out.append({"id": "F16/softlist/%s/%d" % (agg, t), "world": world, "ops": ops, "tags": []})
    return out


def fault_paths(body, prefix=()):
    """every statement position of a block body, nested ones included (see worlds.Emit): positions before each statement, the
    end of each body, and the same inside foreach / implies / if arms / else"""
    out = []
    for i, st in enumerate(body):
        cur = prefix + (i,)
        out.append(cur)
        if st["k"] in ("foreach", "imp"):
            out += fault_paths(st["body"], cur)
        elif st["k"] == "if":
            off = 0
            for arm in st["arms"]:
                out += [cur + (off + q[0],) + q[1:] for q in fault_paths(arm["body"])]
                off += len(arm["body"]) + 1
            if st["els"]:
                out += [cur + (off + q[0],) + q[1:] for q in fault_paths(st["els"])]
    out.append(prefix + (len(body),))
    return out


def family_nested_fault(tier, seed, n=None):
    """user code raising INSIDE nested constraint contexts - the body of an if / else_if / else arm, of implies, of foreach, and
    three levels deep - while a block is elaborated during construction and inside a randomize_with body: every context manager
    on the way out has to pop what it pushed.  Afterwards: constructions, calls and truth tables behave as if nothing happened."""
    IT = lambda v: {"k": "it", "v": v, "p": ""}
    IX = lambda v: {"k": "ix", "v": v}
    SUB = lambda l, i: {"k": "sub", "l": l, "i": i, "p": ""}
    n1 = [E(B("le", F("a"), lit(3))),
          {"k": "if", "arms": [{"c": B("eq", F("a"), lit(1)), "body": [E(B("eq", F("b"), lit(2))), {"k": "imp", "c": B("lt", F("k"), lit(3)), "body": [E(B("ne", F("b"), lit(0)))]}]},
                               {"c": B("eq", F("a"), lit(2)), "body": [E(B("eq", F("b"), lit(1)))]}],
           "els": [E(B("ne", F("b"), lit(3)))]}]
    n2 = [{"k": "foreach", "l": "l", "v": "i", "it": False, "idx": True,
           "body": [{"k": "if", "arms": [{"c": B("lt", SUB("l", IX("i")), lit(2)),
                                          "body": [{"k": "imp", "c": B("eq", F("a"), lit(2)), "body": [E(B("eq", SUB("l", IX("i")), B("and", IX("i"), lit(1))))]}]}],
                     "els": []}]}]
    nd = [{"k": "foreach", "l": "l", "v": "j", "it": True, "idx": False,
           "body": [{"k": "imp", "c": B("eq", F("b"), lit(0)), "body": [E(B("ne", IT("j"), lit(3)))]}]}]
    inl = [E(B("ne", F("a"), F("k"))),
           {"k": "foreach", "l": "l", "v": "q", "it": True, "idx": False,
            "body": [{"k": "if", "arms": [{"c": B("eq", F("a"), lit(0)), "body": [E(B("le", IT("q"), lit(2)))]}], "els": [E(B("ge", IT("q"), lit(0)))]}]},
           {"k": "imp", "c": B("eq", F("b"), lit(1)), "body": [E(B("ne", F("a"), lit(1)))]}]
    fields = [fld("a", 2, False), fld("b", 2, False), fld("k", 2, False, rand=False, init=1),
              {"name": "l", "kind": "list", "w": 2, "signed": False, "rand": True, "init": [0, 1], "cap": 4}]
    blocks = [{"name": "n1", "dynamic": False, "body": n1}, {"name": "n2", "dynamic": False, "body": n2},
              {"name": "nd", "dynamic": True, "body": nd}, {"name": "c3", "dynamic": False, "body": [{"k": "order", "a": ["a"], "b": ["b"]}]}]
    world = {"classes": {"A": {"base": "", "cb": True, "fields": fields, "blocks": blocks}},
             "population": [{"id": "o1", "cls": "A"}, {"id": "o2", "cls": "A"}, {"id": "o3", "cls": "A"}]}
    sites = [("n1", p) for p in fault_paths(n1)] + [("n2", p) for p in fault_paths(n2)] + [("nd", p) for p in fault_paths(nd)]
    bodies = fault_paths(inl)
    rnd = random.Random(1670 + seed)
    if tier == "quick":
        nested = [s_ for s_ in sites if len(s_[1]) > 1]
        sites = rnd.sample(nested, 8) + rnd.sample([s_ for s_ in sites if len(s_[1]) == 1], 2)
    out = []
    probe = lambda o: {"op": "probe", "call": wcall([], o), "paths": [o + ".a", o + ".b", o + ".l[0]", o + ".l[1]"], "cap": 256}
    for t, (blkn, path) in enumerate(sites):
        bp = bodies[(t * 5 + seed) % len(bodies)]
        c_f = wcall(inl, "o3")
        ops = [{"op": "construct", "o": "o1"}, {"op": "call", "call": mcall("o1")},
               {"op": "construct", "o": "o2", "fault": {"cls": "A", "blk": blkn, "pos": list(path)}},
               {"op": "call", "call": mcall("o1")}, probe("o1"),
               {"op": "construct", "o": "o3"},
               {"op": "call", "call": c_f, "fault": {"ph": "body", "pos": list(bp)}},
               {"op": "call", "call": wcall(inl, "o3")}, {"op": "call", "call": wcall([E({"k": "dyn", "o": "", "b": "nd"})], "o3")},
               probe("o3"), {"op": "call", "call": mcall("o1")}]
        out.append({"id": "F16/nested/%s/%s/%d" % (blkn, "_".join(map(str, path)), t), "world": world, "ops": ops, "tags": []})
    return out


def family_softprio_after_fail(tier, seed, n=None):
    """soft-constraint priorities are per-call state: after a call that failed (or was aborted by a user exception) the very next
    call - with an inline soft constraint that conflicts with class-level ones, or with another set of enabled blocks - honours
    exactly the priorities of a fresh session (inline over class level, later over earlier)"""
    out = []
    n = n or (6 if tier == "quick" else 36)
    for t in range(n):
        rnd = random.Random(1680 + t + (seed if t >= n // 2 else 0) * 1000)
        v1, v2, v3 = rnd.sample(range(4), 3)
        fields = [fld("a", 2, False), fld("b", 2, False), fld("k", 2, False, rand=False, init=1)]
        blocks = [{"name": "s1", "dynamic": False, "body": [{"k": "soft", "e": B("eq", F("a"), lit(v1))}, {"k": "soft", "e": B("eq", F("a"), lit(v2))}]},
                  {"name": "s2", "dynamic": False, "body": [{"k": "soft", "e": B("eq", F("b"), lit(v1))}, {"k": "soft", "e": B("ne", F("b"), F("a"))}]},
                  {"name": "h1", "dynamic": False, "body": [E(B("le", F("a"), lit(3)))]}]
        world = {"classes": {"A": {"base": "", "cb": True, "fields": fields, "blocks": blocks}}, "population": [{"id": "o1", "cls": "A"}]}
        unsat = wcall([E(B("lt", F("a"), F("a")))], "o1")
        if t % 3 == 2:
            unsat["flags"] = {"solve_fail_debug": 1}
        failing = {"op": "call", "call": unsat} if t % 2 == 0 else {"op": "call", "call": mcall("o1"), "fault": {"ph": "pre", "o": "o1"}}
        inl_a = wcall([{"k": "soft", "e": B("eq", F("a"), lit(v3))}], "o1")
        inl_b = wcall([{"k": "soft", "e": B("eq", F("b"), lit(v2))}, {"k": "soft", "e": B("eq", F("b"), lit(v3))}], "o1")
        ops = [{"op": "construct", "o": "o1"}, {"op": "call", "call": mcall("o1")}, failing, {"op": "call", "call": inl_a},
               dict(failing), dict(failing), {"op": "call", "call": inl_b},
               dict(failing), {"op": "cmode", "o": "o1", "b": "s1", "en": False}, {"op": "call", "call": inl_a},
               {"op": "cmode", "o": "o1", "b": "s1", "en": True}, dict(failing), {"op": "call", "call": mcall("o1")},
               {"op": "probe", "call": wcall([], "o1"), "paths": ["o1.a", "o1.b"]}]
        out.append({"id": "F16/softprio/%d" % t, "world": world, "ops": ops, "tags": []})
    return out


def family_randsz_after_fail(tier, seed, n=None):
    """random-size lists under an aggregate (sum / product / membership / unique): a call that is unsatisfiable for EVERY size
    (the inline block pins the elements against the aggregate) fails after the library has already solved a size; the following
    calls must relate the aggregate to exactly the list they return, whatever size the failed call had picked"""
    out = []
    n = n or (6 if tier == "quick" else 48)
    for t in range(n):
        rnd = random.Random(1690 + t + (seed if t >= n // 2 else 0) * 1000)
        kind = ["sum", "prod", "member", "sum_le"][t % 4]
        fields = [fld("a", 2, False), fld("k", 2, False, rand=False, init=1),
                  {"name": "l", "kind": "list", "w": 2, "signed": False, "rand": True, "init": [], "randsz": True, "cap": 5}]
        size_c = E({"k": "in", "e": {"k": "size", "l": "l"}, "items": [{"k": "r", "lo": lit(1), "hi": lit(3)}], "neg": False})
        each = lambda body: {"k": "foreach", "l": "l", "v": "e", "it": True, "idx": False, "body": body}
        IT = {"k": "it", "v": "e", "p": ""}
        if kind == "sum":
            body = [size_c, E(B("eq", {"k": "sum", "l": "l"}, F("a")))]
            unsat = [E(B("eq", F("a"), lit(3))), each([E(B("eq", IT, lit(0)))])]
        elif kind == "sum_le":
            body = [size_c, E(B("ge", {"k": "sum", "l": "l"}, F("a"))), E(B("ge", F("a"), lit(2)))]
            unsat = [each([E(B("eq", IT, lit(0)))])]
        elif kind == "prod":
            body = [size_c, each([E(B("gt", IT, lit(0)))]), E(B("eq", {"k": "prod", "l": "l"}, F("a")))]
            unsat = [E(B("eq", F("a"), lit(3))), each([E(B("le", IT, lit(2)))])]          # 3 is no product of 1s and 2s
        else:
            body = [size_c, E({"k": "in", "e": F("a"), "items": [{"k": "l", "p": "l"}], "neg": False})]
            unsat = [E(B("eq", F("a"), lit(3))), each([E(B("le", IT, lit(2)))])]          # no element is 3
        world = {"classes": {"A": {"base": "", "cb": True, "fields": fields, "blocks": [{"name": "c1", "dynamic": False, "body": body}]}},
                 "population": [{"id": "o1", "cls": "A"}]}
        bad = wcall(unsat, "o1")
        if t % 3 == 1:
            bad["flags"] = {"solve_fail_debug": 1}
        pin = lambda s_: wcall([E(B("eq", {"k": "size", "l": "l"}, lit(s_)))], "o1")
        ops = [{"op": "construct", "o": "o1"}, {"op": "call", "call": mcall("o1")}]
        for rep in range(2 if tier == "quick" else 4):
            ops += [{"op": "call", "call": bad}, {"op": "call", "call": mcall("o1")}, {"op": "call", "call": pin(1 + (rep + t) % 3)},
                    {"op": "call", "call": bad}, {"op": "call", "call": pin(3 - (rep + t) % 3)}]
        ops.append({"op": "call", "call": mcall("o1")})
        out.append({"id": "F16/rsfail/%s/%d" % (kind, t), "world": world, "ops": ops, "tags": []})
    return out


def family_bigcore(tier, seed, n=None):
    """unsatisfiable calls whose smallest conflicting subset has 3..6 constraints (a cycle a <= b <= ... < a: any proper subset is
    satisfiable), with and without solve_fail_debug - the diagnostics search combines only a few constraints at a time; whatever
    it finds, the call ends with SolveFailure and the following calls behave as in a fresh session"""
    out = []
    names = ["a", "b", "c", "d", "e", "f"]
    for k in (3, 4, 5, 6):
        for dbg in (0, 1, 2):
            for where in ("inline", "block"):
                if tier == "quick" and (dbg == 2 or (where == "block" and k % 2 == 0)):
                    continue
                fs = names[:k]
                fields = [fld(x, 2, False) for x in fs] + [fld("k", 2, False, rand=False, init=1)]
                chain = [E(B("le", F(fs[i]), F(fs[i + 1]))) for i in range(k - 1)]
                close = E(B("lt", F(fs[-1]), F(fs[0])))
                blocks = [{"name": "c1", "dynamic": False, "body": chain}]
                if where == "block":
                    blocks.append({"name": "cx", "dynamic": False, "body": [close]})
                world = {"classes": {"A": {"base": "", "cb": True, "fields": fields, "blocks": blocks}}, "population": [{"id": "o1", "cls": "A"}]}
                bad = wcall([close] if where == "inline" else [], "o1")
                if dbg:
                    bad["flags"] = {"solve_fail_debug": dbg}
                ops = [{"op": "construct", "o": "o1"}]
                if where == "block":
                    ops += [{"op": "cmode", "o": "o1", "b": "cx", "en": False}, {"op": "call", "call": mcall("o1")}, {"op": "cmode", "o": "o1", "b": "cx", "en": True}]
                else:
                    ops.append({"op": "call", "call": mcall("o1")})
                ops += [{"op": "call", "call": bad}, {"op": "call", "call": bad}]
                if where == "block":
                    ops.append({"op": "cmode", "o": "o1", "b": "cx", "en": False})
                ops += [{"op": "call", "call": mcall("o1")}, {"op": "call", "call": wcall([E(B("ne", F("a"), F("k")))], "o1")},
                        {"op": "probe", "call": wcall([], "o1"), "paths": ["o1." + x for x in fs], "mode": "around", "nsol": 4, "cap": 200}]
                out.append({"id": "F16/bigcore/%d/%s/dbg%d" % (k, where, dbg), "world": world, "ops": ops, "tags": []})
    return out


def inject_failures(scs, tag="FI", every=1):
    """a generic transformation (C16): before every method / with call (and exploration) of a scenario an UNSATISFIABLE call on
    the same root is inserted (inline x < x on a scalar of the root).  The failed call must leave nothing behind: the rest of the
    scenario is judged exactly as before."""
    out = []
    for sc in scs:
        world = sc["world"]
        pop = {e["id"]: e["cls"] for e in world["population"] if "cls" in e}

        def scalar_of(cls):
            while cls:
                c = world["classes"][cls]
                for f in c["fields"]:
                    if f["kind"] == "scalar":
                        return f["name"]
                cls = c.get("base")
            return None
        ops, n, k = [], 0, 0
        for op in sc["ops"]:
            if op["op"] in ("call", "explore") and not op.get("fault") and op["call"]["kind"] in ("method", "with"):
                root = op["call"]["roots"][0]
                f = scalar_of(pop.get(root))
                k += 1
                if f and k % every == 0:
                    bad = {"kind": "with", "roots": [root], "owner": root, "inline": [E(B("lt", F(f), F(f)))]}
                    if n % 3 == 2:
                        bad["flags"] = {"solve_fail_debug": 1}
                    ops.append({"op": "call", "call": bad})
                    n += 1
            ops.append(op)
        if n:
            out.append(dict(sc, id="%s/%s" % (tag, sc["id"]), ops=ops))
    return out


def family_after_failure(tier, seed):
    """scenarios of the other properties' families with a failing call inserted before every call"""
    from . import fam_hist, fam_list, fam_inst, fam_tree, fam_dist, fam_soft
    k = 3 if tier == "quick" else 24
    pick = lambda scs, kk=k: scs[:kk] + scs[len(scs) // 2: len(scs) // 2 + kk]
    src = (pick(fam_hist.family_H(tier, seed)) + pick(fam_list.family_randsz(tier, seed), 2 * k) + pick(fam_list.family_objlist(tier, seed))
           + [s for s in fam_list.family_fixed(tier, seed) if any(x in s["id"] for x in ("/sum/", "/prod/", "/fe_tbl/", "/member/", "/fe_dyn/", "/uniq/", "/sum_arith/"))][:4 * k]
           + pick(fam_list.family_uniqvec(tier, seed)) + pick(fam_inst.family_dyn(tier, seed)) + pick(fam_inst.family_dyn_member_foreach(tier, seed))
           + pick(fam_tree.family_T(tier, seed, probes=True, tag="T16f")) + pick(fam_dist.family_starve(tier, seed), 2 * k)
           + pick(fam_dist.family_order(tier, seed)) + pick(fam_dist.family_dist(tier, seed)) + pick(fam_soft.family_soft_struct(tier, seed), 2 * k))
    return inject_failures(src)
