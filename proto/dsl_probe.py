import sys, io, contextlib
sys.path.insert(0,'/verif/proto'); import btorshim
import vsc
from vsc.model.solve_failure import SolveFailure
def q(f):
    with contextlib.redirect_stdout(io.StringIO()): return f()
def try_(name,f):
    try: r=q(f); print("OK  ",name,r)
    except Exception as e: print("FAIL",name,type(e).__name__,str(e)[:100])
# dynamic class creation with inheritance
def mkA():
    def init(self):
        self.a=vsc.rand_bit_t(3); self.b=vsc.rand_bit_t(3); self.k=vsc.bit_t(3)
    def c1(self): self.a < self.b
    def c2(self): self.a != self.k
    def d1(self): self.b == 7
    return vsc.randobj(type("A",(object,),{"__init__":init,"c1":vsc.constraint(c1),"c2":vsc.constraint(c2),"d1":vsc.dynamic_constraint(d1)}))
A=mkA()
def mkB():
    def init(self):
        A.__init__(self)   # super().__init__ not available in plain function
    def c1(self): self.a > self.b
    return vsc.randobj(type("B",(A,),{"__init__":init,"c1":vsc.constraint(c1)}))
try_("derive", lambda: mkB())
B=mkB()
def t1():
    o=B(); o.randomize(); return (o.a,o.b, o.a>o.b)
try_("derived override", t1)
def t2():
    o=A(); o.c1.constraint_mode(False); r=[]
    for i in range(20): o.randomize(); r.append(o.a<o.b)
    return all(r)
try_("cmode off (expect False=some violate)", t2)
# nested + dynamic through sub
@vsc.randobj
class Sub:
    def __init__(self): self.x=vsc.rand_bit_t(3)
    @vsc.dynamic_constraint
    def big(self): self.x > 5
    @vsc.constraint
    def sc(self): self.x != 7
@vsc.randobj
class Top:
    def __init__(self):
        self.s=vsc.rand_attr(Sub()); self.y=vsc.rand_bit_t(3)
        self.ol=vsc.rand_list_t(vsc.rand_attr(Sub()))
        for i in range(2): self.ol.append(vsc.rand_attr(Sub()))
    @vsc.constraint
    def tc(self):
        with vsc.foreach(self.ol) as it:
            it.x != self.y
        with vsc.foreach(self.ol, idx=True, it=True) as (i,it):
            it.x >= i
def t3():
    t=Top()
    with t.randomize_with() as it:
        it.s.big()
    return t.s.x
try_("dyn via sub in with", t3)
def t4():
    t=Top()
    with t.randomize_with() as it:
        it.ol[1].big()
    return [e.x for e in t.ol]
try_("dyn via list elem", t4)
def t5():
    t=Top(); t.ol[0].sc.constraint_mode(False); t.s.sc.constraint_mode(False)
    with t.randomize_with() as it:
        it.ol[0].x == 7; it.s.x==7
    return (t.ol[0].x,t.s.x)
try_("cmode on nested/list elem", t5)
# free-standing
def t6():
    a=vsc.rand_bit_t(4); b=vsc.rand_bit_t(4); c=vsc.bit_t(4); c.set_val(9)
    with vsc.randomize_with(a,b) as it:
        a < b; b < c
    return (a.get_val(), b.get_val(), c.get_val())
try_("free randomize_with scalars", t6)
def t7():
    t=Top(); y0=t.y
    vsc.randomize(t.s)
    return (t.y==y0)
try_("free randomize(sub) keeps top.y", t7)
# enum
import enum
class E(enum.IntEnum): A=1; B=4; C=9
@vsc.randobj
class En:
    def __init__(self): self.e=vsc.rand_enum_t(E); self.n=vsc.rand_bit_t(4)
    @vsc.constraint
    def c(self):
        self.e != E.B
        self.n == 3
def t8():
    o=En(); s=set()
    for i in range(30): o.randomize(); s.add(o.e)
    return s
try_("enum", t8)
# rangelist mutable + list membership
@vsc.randobj
class RL:
    def __init__(self):
        self.rl=vsc.rangelist((1,3)); self.x=vsc.rand_bit_t(4); self.l=vsc.list_t(vsc.bit_t(4),init=[2,9])
        self.y=vsc.rand_bit_t(4)
    @vsc.constraint
    def c(self):
        self.x.inside(self.rl)
        self.y in self.l
def t9():
    o=RL(); o.randomize(); a=(o.x,o.y); o.rl.clear(); o.rl.extend([(10,12)]); o.l.append(5); o.randomize(); return a,(o.x,o.y)
try_("mutable rangelist / in list", t9)
