------------------------------- MODULE BCompact -------------------------------
(* B-level prototype: line-by-line transcription of RangelistModel.compact() (PlusCal),
   checked against the declarative meaning "same value set, sorted, pairwise disjoint and
   non-adjacent-overlapping" for every rangelist of <= 3 ranges within 0..MaxV *)
EXTENDS Naturals, Sequences, FiniteSets, TLC
CONSTANT MaxV
Ranges == {<<lo, hi>> : lo \in 0..MaxV, hi \in 0..MaxV}
ValidRanges == {r \in Ranges : r[1] <= r[2]}
Inputs == UNION {[1..n -> ValidRanges] : n \in 1..3}
Vals(rl) == UNION {r[1]..r[2] : r \in {rl[i] : i \in 1..Len(rl)}}
\* stable sort by lower bound (insertion sort, as Python's list.sort(key=...) is stable)
RECURSIVE Insert(_, _)
Insert(s, r) == IF s = << >> THEN <<r>>
                ELSE IF r[1] < s[1][1] THEN <<r>> \o s ELSE <<s[1]>> \o Insert(Tail(s), r)
RECURSIVE SortLo(_)
SortLo(s) == IF s = << >> THEN << >> ELSE Insert(SortLo(SubSeq(s, 1, Len(s) - 1)), s[Len(s)])
RemoveAt(s, k) == SubSeq(s, 1, k - 1) \o SubSeq(s, k + 1, Len(s))

(* --algorithm compact
variables inp \in Inputs, rl = SortLo(inp), i = 1;
begin
Loop:
  while i < Len(rl) do            \* python: while i < len(range_l)-1 (0-based)
    if rl[i][1] >= rl[i+1][1] then
      \* "Entire range subsumed": pop(i)
      rl := RemoveAt(rl, i);
    elsif rl[i][2] >= rl[i+1][2] then
      \* "Upper just overlaps": range_l[i][1] = range_l[i+1][0]; pop(i+1)
      rl := RemoveAt([rl EXCEPT ![i] = <<rl[i][1], rl[i+1][1]>>], i + 1);
    else
      i := i + 1;
    end if;
  end while;
Done2:
  assert Vals(rl) = Vals(inp);
end algorithm; *)
\* BEGIN TRANSLATION (chksum(pcal) = "3a8d8053" /\ chksum(tla) = "18362b5f")
VARIABLES pc, inp, rl, i

vars == << pc, inp, rl, i >>

Init == (* Global variables *)
        /\ inp \in Inputs
        /\ rl = SortLo(inp)
        /\ i = 1
        /\ pc = "Loop"

Loop == /\ pc = "Loop"
        /\ IF i < Len(rl)
              THEN /\ IF rl[i][1] >= rl[i+1][1]
                         THEN /\ rl' = RemoveAt(rl, i)
                              /\ i' = i
                         ELSE /\ IF rl[i][2] >= rl[i+1][2]
                                    THEN /\ rl' = RemoveAt([rl EXCEPT ![i] = <<rl[i][1], rl[i+1][1]>>], i + 1)
                                         /\ i' = i
                                    ELSE /\ i' = i + 1
                                         /\ rl' = rl
                   /\ pc' = "Loop"
              ELSE /\ pc' = "Done2"
                   /\ UNCHANGED << rl, i >>
        /\ inp' = inp

Done2 == /\ pc = "Done2"
         /\ Assert(Vals(rl) = Vals(inp), 
                   "Failure of assertion at line 35, column 3.")
         /\ pc' = "Done"
         /\ UNCHANGED << inp, rl, i >>

(* Allow infinite stuttering to prevent deadlock on termination. *)
Terminating == pc = "Done" /\ UNCHANGED vars

Next == Loop \/ Done2
           \/ Terminating

Spec == Init /\ [][Next]_vars

Termination == <>(pc = "Done")

\* END TRANSLATION 
=============================================================================
