CONSTANT MaxLen = 4
CONSTANT MaxW = 4
SPECIFICATION Spec
INVARIANT WeightExact
INVARIANT ZeroNever
CHECK_DEADLOCK FALSE
