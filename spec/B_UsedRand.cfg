CONSTANT LockNonCall = TRUE
CONSTANT MaxLevel = 5
SPECIFICATION Spec
CONSTRAINT Bound
PROPERTY SolvedIsUsedRand
CHECK_DEADLOCK FALSE
