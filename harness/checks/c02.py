"""C02 - SolveFailure is raised exactly when the hard constraints are unsatisfiable."""
from .. import engine, fam_expr, fam_hist, fam_tree, fam_fault, fam_list, fam_dist

LEVEL = "model_checking"


def scenarios(tier, seed):
    return (fam_expr.family_N(tier, seed) + fam_expr.family_D(tier, seed) + fam_expr.family_R(tier, seed) + fam_expr.family_K(tier, seed) + fam_expr.family_G(tier, seed)
            + fam_expr.family_S(tier, seed, per_kind=2 if tier == "quick" else 20)
            # satisfiability is also judged inside histories: after failing calls, list / rangelist edits, calls that only
            # reference fields of other objects
            + fam_hist.family_H(tier, seed, n=16 if tier == "quick" else 200)
            # ... and inside object trees: blocks of non-random members (and of anything below them) take no part, whatever
            # their current values
            + fam_tree.family_T(tier, seed, n=10 if tier == "quick" else 120, probes=True, tag="T02") + fam_tree.family_nonrand_member(tier, seed)
            # unsatisfiable systems whose smallest conflict has 3..6 constraints, with the failure diagnostics on and off
            + fam_fault.family_bigcore(tier, seed)
            # arithmetic next to list.sum while the list grows and shrinks between calls: no width bookkeeping may raise
            + [x for x in fam_list.family_fixed(tier, seed) if any(k_ in x["id"] for k_ in ("/sum_arith/", "/idx_merge/", "/fe_tbl/", "/fe_notidx/", "/fe_guard/"))]
            # dist: zero-weight entries make systems unsatisfiable
            + fam_dist.family_dist(tier, seed, n=6 if tier == "quick" else 60))


def run(tier, seed, limit=0):
    chk = engine.Check("C02", tier, seed)
    scs = scenarios(tier, seed)
    if limit:
        scs = scs[:limit]
    chk.run_scenarios(scs, "Trace_VscRand")
    chk.run_mc("MC_VscRand", {"MaxLevel": 4 if tier == "quick" else 6}, workers=12, label="A-level API machine on world W-flags")
    return chk.finish(LEVEL, "families N (non-random operands / folded conditions), D (unsat and |Sol|=1 duals), K (statements naming no field), G (empty ranges), R (seeded random "
                      "programs), S; every program: calls + exhaustive pin-probe truth table judged row by row against Sol; "
                      "non-trivial = accepted scenario with distinct event content",
                      ["TLC 1.8; BV/Expr reference semantics; world->DSL compiler"])
