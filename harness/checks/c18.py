"""C18 - field values stay within their declared type on every access path."""
from .. import engine, fam_cells

LEVEL = "model_checking"
MODULE = "Trace_Cells"
RUNNER = ("runner_cells", "run_scenario")


def run(tier, seed, limit=0):
    chk = engine.Check("C18", tier, seed)
    scs = fam_cells.family_cells(tier, seed)
    if limit:
        scs = scs[:limit]
    chk.run_scenarios(scs, MODULE, fn=RUNNER, batch_events=3000)
    chk.run_mc("B_Cells", {"MaxW": 4 if tier == "quick" else 6}, label="mask arithmetic |= Wrap / part-select")
    return chk.finish(LEVEL, "widths x signedness x integers (exhaustive -2^(w+1)..2^(w+1) for small w, boundary values up to 64 bits) x "
                      "write paths (attr, set_val, .val, ctor init, list append/extend/setitem/assign) x all part-select bounds; after "
                      "every write every read path is logged and TLC requires them all to equal Wrap(v,w); distinct = distinct event content",
                      ["TLC 1.8; BV.tla; CPython"])
