"""History families (DESIGN 6: C03, C06, C07, C08): worlds with objects, sub-objects, flags,
rangelists and lists, driven by operation sequences."""
import random

from .worlds import F, B, E, lit, bits
from .fam_expr import fld, wcall, mcall


def IN(e, items, neg=False):
    return E({"k": "in", "e": e, "items": items, "neg": neg})


def world_mix():
    sub = {"base": "", "fields": [fld("x", 2, False), fld("y", 2, False, rand=False, init=1)],
           "blocks": [{"name": "sc", "dynamic": False, "body": [E(B("ne", F("x"), F("y")))]}]}
    top = {"base": "", "fields": [
        fld("a", 2, False), fld("b", 2, False), fld("k", 2, False, rand=False, init=1),
        {"name": "s1", "kind": "obj", "cls": "Sub", "rand": True},
        {"name": "s2", "kind": "obj", "cls": "Sub", "rand": False},
        {"name": "rl", "kind": "rangelist", "items": [[0, 2]]},
        {"name": "nl", "kind": "list", "w": 2, "signed": False, "rand": False, "init": [1, 2, 3], "cap": 6}],
        "blocks": [
            {"name": "c1", "dynamic": False, "body": [E(B("le", F("a"), F("b")))]},
            {"name": "c2", "dynamic": False, "body": [E(B("ne", F("a"), F("k")))]},
            {"name": "c3", "dynamic": False, "body": [IN(F("b"), [{"k": "rl", "p": "rl"}])]},
            {"name": "c4", "dynamic": False, "body": [E(B("le", F("s1.x"), B("add", F("a"), 1)))]},
            {"name": "c5", "dynamic": False, "body": [E(B("ne", F("b"), F("s2.x")))]},
            {"name": "c6", "dynamic": False, "body": [IN(F("a"), [{"k": "l", "p": "nl"}])]},
            {"name": "c7", "dynamic": False, "body": [{"k": "foreach", "l": "nl", "v": "i", "it": True, "idx": False,
                                                        "body": [E(B("ne", F("s1.x"), {"k": "it", "v": "i", "p": ""}))]}]},
        ]}
    return {"classes": {"Sub": sub, "Top": top},
            "population": [{"id": "o1", "cls": "Top"}, {"id": "o2", "cls": "Top"},
                           {"id": "fa", "kind": "scalar", "w": 2, "signed": False, "rand": True},
                           {"id": "fb", "kind": "scalar", "w": 2, "signed": False, "rand": True}]}


MIX_SCALARS = ["a", "b", "k", "s1.x", "s1.y", "s2.x", "s2.y"]
MIX_PROBE = ["a", "b", "s1.x"]


def hist_mix(rnd, sid, steps=10, objs=("o1", "o2")):
    world = world_mix()
    ops = [{"op": "construct", "o": o} for o in objs] + [{"op": "construct", "o": "fa"}, {"op": "construct", "o": "fb"}]
    # every declared-random field takes part in one successful call first (quarantine of known finding
    # C03-referenced-never-randomized: see known_findings.json; witnesses in family_H)
    ops.append({"op": "call", "call": {"kind": "free", "roots": ["fa", "fb"], "owner": "", "inline": []}})
    nlsz = {o: 3 for o in objs}
    for o in objs:
        ops.append({"op": "rl", "kind": "rl_extend", "p": o + ".rl", "items": [3]})
        ops.append({"op": "call", "call": mcall(o)})
    inl = [
        [E(B("eq", F("a"), F("k")))],
        [E(B("lt", F("s1.x"), F("s2.x")))],
        [E(B("ne", F("a"), F("a")))],               # contradiction: the call must fail
        [E(B("gt", F("b"), 1)), E(B("eq", F("s1.x"), F("s1.y")))],
        [],
    ]
    for i in range(steps):
        o = rnd.choice(objs)
        r = rnd.random()
        if r < 0.22:
            p = rnd.choice(MIX_SCALARS)
            ops.append({"op": "set", "p": "%s.%s" % (o, p), "v": bits(rnd.randrange(4), 2)})
        elif r < 0.36:
            p = rnd.choice(["a", "b", "s1.x", "k", "s2.x", "s1.y", "s1", "s1"])      # also a whole member object
            ops.append({"op": "rand_mode", "p": "%s.%s" % (o, p), "b": rnd.random() < 0.4})
        elif r < 0.44:
            kind = rnd.choice(["rl_clear+", "rl_append", "rl_extend"])
            if kind == "rl_clear+":      # clear then refill (an emptied rangelist is an open zone)
                ops.append({"op": "rl", "kind": "rl_clear", "p": o + ".rl"})
                lo = rnd.randrange(4)
                ops.append({"op": "rl", "kind": "rl_extend", "p": o + ".rl", "items": [[lo, min(3, lo + rnd.randrange(2))], rnd.randrange(4)]})
            elif kind == "rl_append":
                ops.append({"op": "rl", "kind": "rl_append", "p": o + ".rl", "items": [rnd.randrange(4)]})
            else:
                lo = rnd.randrange(4)
                ops.append({"op": "rl", "kind": "rl_extend", "p": o + ".rl", "items": [[lo, min(3, lo + 1)]]})
        elif r < 0.52:
            kind = rnd.choice(["l_append", "l_setitem", "l_assign", "l_extend"])
            # the model bounds the list length (cap 6 in world_mix): keep the generated history inside it
            if kind in ("l_append", "l_extend") and nlsz[o] >= 6:
                kind = "l_assign"
            if kind in ("l_append", "l_extend"):
                nlsz[o] += 1
            if kind == "l_append":
                ops.append({"op": "list", "kind": kind, "p": o + ".nl", "vs": [bits(rnd.randrange(4), 2)]})
            elif kind == "l_setitem":
                ops.append({"op": "list", "kind": kind, "p": o + ".nl", "i": 0, "vs": [bits(rnd.randrange(4), 2)]})
            elif kind == "l_assign":
                ops.append({"op": "list", "kind": kind, "p": o + ".nl", "vs": [bits(rnd.randrange(4), 2) for _ in range(rnd.randint(1, 3))]})
                nlsz[o] = len(ops[-1]["vs"])
            else:
                ops.append({"op": "list", "kind": kind, "p": o + ".nl", "vs": [bits(rnd.randrange(4), 2)]})
        elif r < 0.80:
            kind = rnd.choice(["method", "method", "with", "with", "free_sub", "free_multi", "free_with", "ref_unpassed", "ref_unpassed"])
            if kind == "method":
                ops.append({"op": "call", "call": mcall(o)})
            elif kind == "with":
                ops.append({"op": "call", "call": wcall(rnd.choice(inl), o)})
            elif kind == "free_sub":
                ops.append({"op": "call", "call": {"kind": "free", "roots": [o + ".s1"], "owner": "", "inline": []}})
            elif kind == "free_multi":
                ops.append({"op": "call", "call": {"kind": "free", "roots": [o, "fa"], "owner": "", "inline": []}})
            elif kind == "ref_unpassed":
                # constraints that mention random fields which are NOT part of the call: they act as constants
                oth = [x for x in objs if x != o]
                oth = oth[0] if oth else o
                v = rnd.choice([
                    {"kind": "free_with", "roots": ["fa"], "owner": "", "inline": [E(B("le", F("fa"), F("fb")))]},
                    {"kind": "free_with", "roots": ["fb"], "owner": "", "inline": [E(B("ne", F("fb"), F(o + ".a")))]},
                    {"kind": "free_with", "roots": [o], "owner": "", "inline": [E(B("le", F(o + ".a"), F(oth + ".b")))]},
                    {"kind": "free_with", "roots": [o + ".s1"], "owner": "", "inline": [E(B("ne", F(o + ".s1.x"), F(o + ".a")))]},
                    {"kind": "free_with", "roots": [o], "owner": "", "inline": [E(B("ge", F(o + ".b"), F("fa")))]}])
                ops.append({"op": "call", "call": v})
            else:
                ops.append({"op": "call", "call": {"kind": "free_with", "roots": ["fa", "fb", o], "owner": "",
                                                   "inline": [E(B("lt", F("fa"), F("fb"))), E(B("eq", F(o + ".a"), F("fa")))]}})
        else:
            ops.append({"op": "probe", "call": wcall([], o), "paths": ["%s.%s" % (o, p) for p in MIX_PROBE]})
    ops.append({"op": "probe", "call": wcall([], objs[0]), "paths": ["%s.%s" % (objs[0], p) for p in MIX_PROBE]})
    return {"id": sid, "world": world, "ops": ops, "tags": []}


def witness_ref_unpassed():
    """known finding C03-referenced-never-randomized: a declared-random field that has never taken part in a
    successful call is modified by a call that only references it"""
    w = world_mix()
    out = []
    ops = [{"op": "construct", "o": "fa"}, {"op": "construct", "o": "fb"},
           {"op": "set", "p": "fb", "v": bits(2, 2)},
           {"op": "call", "call": {"kind": "free_with", "roots": ["fa"], "owner": "", "inline": [E(B("le", F("fa"), F("fb")))]}}]
    out.append({"id": "H/witness/ref_unpassed/0", "world": w, "ops": ops, "tags": []})
    ops = [{"op": "construct", "o": "o1"}, {"op": "construct", "o": "o2"}, {"op": "rl", "kind": "rl_extend", "p": "o1.rl", "items": [3]},
           {"op": "set", "p": "o2.b", "v": bits(2, 2)},
           {"op": "call", "call": {"kind": "free_with", "roots": ["o1"], "owner": "", "inline": [E(B("le", F("o1.a"), F("o2.b")))]}}]
    out.append({"id": "H/witness/ref_unpassed/1", "world": w, "ops": ops, "tags": []})
    return out


def member_rand_mode():
    """rand_mode switched off on a whole MEMBER OBJECT: every field below it is a constant for the calls that follow, until it
    is switched on again (calls of all kinds on the owner; a call rooted at the member itself still randomizes it)"""
    out = []
    for t in range(3):
        world = world_mix()
        ops = [{"op": "construct", "o": "o1"}, {"op": "construct", "o": "o2"},
               {"op": "rl", "kind": "rl_extend", "p": "o1.rl", "items": [3]}, {"op": "rl", "kind": "rl_extend", "p": "o2.rl", "items": [3]},
               {"op": "call", "call": mcall("o1")}, {"op": "call", "call": mcall("o2")},
               {"op": "call", "call": mcall("o1")} if t else {"op": "call", "call": mcall("o2")},
               {"op": "rand_mode", "p": "o1.s1", "b": False}]       # (frozen at the values the last call left: they satisfy s1's blocks)
        for k_ in range(3):
            ops.append({"op": "call", "call": [mcall("o1"), wcall([E(B("ne", F("a"), F("s1.x")))], "o1"),
                                               {"kind": "free", "roots": ["o1"], "owner": "", "inline": []}][(k_ + t) % 3]})
            ops.append({"op": "call", "call": mcall("o2")})          # the other instance is not affected
        ops.append({"op": "probe", "call": wcall([], "o1"), "paths": ["o1.a", "o1.b", "o1.s1.x", "o1.s1.y"], "cap": 300})
        ops.append({"op": "call", "call": {"kind": "free", "roots": ["o1.s1"], "owner": "", "inline": []}})
        ops += [{"op": "rand_mode", "p": "o1.s1", "b": True}, {"op": "call", "call": mcall("o1")}, {"op": "call", "call": mcall("o1")}]
        out.append({"id": "H/member_rand_mode/%d" % t, "world": world, "ops": ops, "tags": []})
    return out


def family_H(tier, seed, n=None):
    out = witness_ref_unpassed() + member_rand_mode()
    n = n or (30 if tier == "quick" else 400)
    rnd = random.Random(555)
    for t in range(n // 2):                                   # deterministic core
        out.append(hist_mix(rnd, "H/core/%d" % t, steps=rnd.randint(6, 12)))
    rnd = random.Random(seed * 31 + 7)
    for t in range(n - n // 2):                               # seeded
        out.append(hist_mix(rnd, "H/s%d/%d" % (seed, t), steps=rnd.randint(6, 14)))
    return out


def family_objlist_randmode(tier, seed):
    """an element of a random object list is switched off with rand_mode: it keeps its values through later calls - also after
    another element was replaced by index assignment or the whole object list was edited around it"""
    from .fam_expr import fld, mcall, wcall
    out = []
    for t in range(3 if tier == "quick" else 12):
        rnd = random.Random(3300 + t + (seed if t >= 2 else 0) * 100)
        sub = {"base": "", "fields": [fld("x", 2, False), fld("y", 2, False)],
               "blocks": [{"name": "sc", "dynamic": False, "body": [E(B("ne", F("x"), F("y")))]}]}
        top = {"base": "", "fields": [fld("a", 2, False), {"name": "ol", "kind": "objlist", "cls": "Sub", "n": 3, "rand": True}],
               "blocks": [{"name": "c1", "dynamic": False, "body": [E(B("le", F("a"), F("ol[0].x")))]}]}
        world = {"classes": {"Sub": sub, "Top": top}, "population": [{"id": "o1", "cls": "Top"}]}
        off = 1 + t % 2
        other = 0 if t % 3 else (2 if off == 1 else 0)
        ops = [{"op": "construct", "o": "o1"}, {"op": "call", "call": mcall("o1")},
               {"op": "rand_mode", "p": "o1.ol[%d]" % off, "b": False},
               {"op": "set", "p": "o1.ol[%d].x" % off, "v": bits(3, 2)}, {"op": "set", "p": "o1.ol[%d].y" % off, "v": bits(1, 2)},
               {"op": "call", "call": mcall("o1")}, {"op": "call", "call": mcall("o1")},
               {"op": "ol_setitem", "p": "o1.ol", "i": other},
               {"op": "call", "call": mcall("o1")}, {"op": "call", "call": wcall([E(B("ne", F("a"), lit(0)))], "o1")},
               {"op": "rand_mode", "p": "o1.ol[%d]" % off, "b": True}, {"op": "call", "call": mcall("o1")}]
        out.append({"id": "H/olrm/%d" % t, "world": world, "ops": ops, "tags": []})
    return out
