----------------------------- MODULE MC_VscList -----------------------------
(***************************************************************************)
(* Model checking of the requirement-level API machine VscRand on lists    *)
(* (property C04) - world W-lists: class L {a rand 1 bit; l: random        *)
(* fixed-size list of 1-bit elements, one element at first, at most three; *)
(* nl: non-random list; blocks f1: foreach(l) it <= a; u1: unique(l);      *)
(* m1: a in nl}; objects o1, o2.                                           *)
(* Actions: construction, append / clear / element assignment on both      *)
(* lists, constraint_mode, and randomize calls whose outcome is ANY        *)
(* behaviour the Clauses of VscRand accept.  As in MC_VscRand the actions  *)
(* are built from the very Clauses / Effect operators that judge recorded  *)
(* traces; `hist` is the operation skeleton replayed into the library.     *)
(***************************************************************************)
EXTENDS VscRand, Json, IOUtils, TLCExt
CONSTANTS MaxLevel
VARIABLES S, hist, last
vars == <<S, hist, last>>

In == JsonDeserialize("mc/w_lists.json")
W == In.world
Objs == {"o1", "o2"}
StkZero == [expr_l |-> 0]
Bit == AllVecs(1)
Alive(o) == o \in S.alive
CallOf(o) == [kind |-> "method", roots |-> <<o>>, owner |-> o, inline |-> << >>]

Construct(o) ==
  LET ev0 == [op |-> "construct", o |-> o, exc |-> "none", stk |-> StkZero]
      ev  == ev0 @@ [post |-> Proj(ConstructEffect(W, S, ev0))]
  IN /\ Failed(Clauses(W, S, ev)) = {}
     /\ S' = Effect(W, S, ev) /\ hist' = Append(hist, [op |-> "construct", o |-> o]) /\ last' = "construct"

\* a list edit through the public API: the event carries what the library has to show afterwards
Edit(o, f, kind, v) ==
  LET p   == o \o "." \o f
      ev0 == [op |-> kind, p |-> p, vs |-> IF kind = "l_clear" THEN << >> ELSE <<v>>, i |-> 0, exc |-> "none", stk |-> StkZero]
      seq == ListNewSeq(W, S, ev0)
      ev  == ev0 @@ [post |-> Proj(ListEffect(W, S, ev0)), views |-> [len |-> Len(seq), size |-> Len(seq), index |-> seq, iter |-> seq]]
  IN /\ Alive(o)
     /\ (kind = "l_setitem" => S.sz[p] > 0)
     /\ (kind = "l_clear" => S.sz[p] > 0)
     /\ Failed(Clauses(W, S, ev)) = {}                          \* (within_cap bounds the length)
     /\ S' = Effect(W, S, ev) /\ last' = "edit"
     /\ hist' = Append(hist, [op |-> "list", kind |-> kind, p |-> p, vs |-> ev0.vs, i |-> 0])

CMode(o, blk, b) ==
  LET ev == [op |-> "cmode", o |-> o, b |-> blk, en |-> b, exc |-> "none", stk |-> StkZero, post |-> Proj(S)]
  IN /\ Alive(o) /\ S.cmode[CKey(o, blk)] # b
     /\ Failed(Clauses(W, S, ev)) = {}
     /\ S' = Effect(W, S, ev) /\ hist' = Append(hist, [op |-> "cmode", o |-> o, b |-> blk, en |-> b]) /\ last' = "cmode"

Call(o) ==
  /\ Alive(o)
  /\ LET call == CallOf(o)
         base == [op |-> "call", call |-> call, pre |-> Proj(S), cbs |-> << >>, stk |-> StkZero, views |-> << >>]
     IN \/ \E e \in Candidates(W, S, call, S.vals) :
             LET ev == base @@ [exc |-> "none", post |-> [v |-> e, sz |-> S.sz]] IN
             /\ Failed(Clauses(W, S, ev)) = {}
             /\ S' = Effect(W, S, ev) /\ last' = "ok"
        \/ LET ev == base @@ [exc |-> "SolveFailure", post |-> Proj(S)] IN
             /\ Failed(Clauses(W, S, ev)) = {}
             /\ S' = Effect(W, S, ev) /\ last' = "fail"
  /\ hist' = Append(hist, [op |-> "call", o |-> o])

Init == S = EmptyState /\ hist = << >> /\ last = "init"
Next == \E o \in Objs :
          \/ Construct(o)
          \/ \E f \in {"l", "nl"} : \E v \in Bit : Edit(o, f, "l_append", v) \/ Edit(o, f, "l_setitem", v)
          \/ \E f \in {"l", "nl"} : Edit(o, f, "l_clear", <<0>>)
          \/ \E blk \in {"f1", "u1", "m1"} : \E b \in BOOLEAN : CMode(o, blk, b)
          \/ Call(o)
Spec == Init /\ [][Next]_vars
View == <<S, last>>
Bound == TLCGet("level") <= MaxLevel
IsCall(o) == hist' = Append(hist, [op |-> "call", o |-> o])

(* ------------------------------ properties (C04) ----------------------- *)
TypeOK == \A x \in DOMAIN S.vals : InType(W, x, S.vals[x])
\* the facade is one sequence: the element paths that exist are exactly the positions below the size
FacadeConsistent == \A l \in DOMAIN S.sz : \A i \in 0..3 : (ElemPath(l, i) \in DOMAIN S.vals) <=> (i < S.sz[l])
\* right after an accepted successful call every enabled block holds on exactly the list the object exposes
ListBlocksHoldAfterOk == last = "ok" => HardAll(W, S, CallOf(hist[Len(hist)].o), S.vals, S.sz) = "T"
\* a fixed-size random list keeps its length across a call, whatever the outcome; non-random lists keep their content
LengthKept == [][\A o \in Objs : (Alive(o) /\ IsCall(o)) =>
                    /\ S'.sz = S.sz
                    /\ \A i \in 0..3 : ElemPath(o \o ".nl", i) \in DOMAIN S.vals
                                          => S'.vals[ElemPath(o \o ".nl", i)] = S.vals[ElemPath(o \o ".nl", i)]]_vars
\* SolveFailure exactly when no assignment of a and the exposed elements satisfies the enabled blocks
FailIffUnsat == [][\A o \in Objs : (Alive(o) /\ IsCall(o)) => ((last' = "fail") <=> (Sol(W, S, CallOf(o), S.vals) = {}))]_vars
\* unique over three 1-bit elements cannot hold: with u1 enabled a list of three elements makes every call fail (pigeonhole;
\* a design-level sanity check that the solution sets follow the exposed length)
ThreeElementsUnsat == \A o \in S.alive : (S.sz[o \o ".l"] = 3 /\ S.cmode[CKey(o, "u1")]) => Sol(W, S, CallOf(o), S.vals) = {}
\* membership in an emptied non-random list is false: with m1 enabled nothing is satisfiable
EmptyMembershipUnsat == \A o \in S.alive : (S.sz[o \o ".nl"] = 0 /\ S.cmode[CKey(o, "m1")]) => Sol(W, S, CallOf(o), S.vals) = {}
\* edits and toggles on one object never change what another object can produce (solutions projected on its own paths)
OwnSol(T, q) == {[x \in {y \in DOMAIN T.vals : SubSeq(y, 1, 2) = q} |-> e[x]] : e \in Sol(W, T, CallOf(q), T.vals)}
OtherObjectUntouched ==
  [][\A o \in Objs : (last' \in {"edit", "cmode"} /\ hist'[Len(hist')].op # "construct"
                      /\ (IF hist'[Len(hist')].op = "list" THEN SubSeq(hist'[Len(hist')].p, 1, 2) = o ELSE hist'[Len(hist')].o = o))
        => \A q \in S.alive \ {o} : OwnSol(S', q) = OwnSol(S, q)]_vars

EmitAtDepth == IF Len(hist) = MaxLevel - 1 THEN PrintT(<<"HIST", ToJson(hist)>>) ELSE TRUE
=============================================================================
