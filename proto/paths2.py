import sys, time
from fractions import Fraction
sys.path.insert(0,'/verif/proto'); import btorshim
import vsc, io, contextlib
from vsc.model.solve_failure import SolveFailure
exec(open('/verif/proto/dist_paths.py').read().split("@vsc.randobj")[0].split("import vsc, random as _random")[1].replace("from vsc.model.solve_failure import SolveFailure",""))
import random as _random
def explore(mk, get, cap=300000):
    outcomes={}; stack=[[]]; n=0
    while stack and n<cap:
        script=stack.pop(); o=mk(); rs=ScriptedRS(script); o.set_randstate(rs)
        try:
            with contextlib.redirect_stdout(io.StringIO()): o.randomize()
            res=get(o)
        except SolveFailure: res="FAIL"
        n+=1; w=Fraction(1)
        for lo,hi,v in rs.log: w/= (hi-lo+1)
        for p in range(len(script), len(rs.log)):
            lo,hi,v=rs.log[p]
            for alt in range(1, hi-lo+1):
                stack.append([x[2]-x[0] for x in rs.log[:p]]+[alt])
        outcomes[res]=outcomes.get(res,0)+w
    return n,outcomes,not stack
def mkcls(w, cons):
    def init(self): self.a=vsc.rand_bit_t(w); self.b=vsc.rand_bit_t(w)
    return vsc.randobj(type("P",(object,),{"__init__":init,"blk":vsc.constraint(cons)}))
for w,name,cons in [(2,"a<b",lambda s: s.a<s.b),(2,"a+b==3",lambda s: (s.a+s.b)==3),(3,"a<b",lambda s: s.a<s.b),(2,"a in [1,2] & b!=a", lambda s: (s.a.inside(vsc.rangelist(1,2)), s.b!=s.a))]:
    T=mkcls(w,cons); t0=time.time()
    n,out,complete=explore(T, lambda o:(o.a,o.b))
    print("w=%d %-18s paths=%d complete=%s time=%.1fs support=%d sum=%s"%(w,name,n,complete,time.time()-t0,len(out),sum(out.values())))
    print("    ", sorted((k,str(v)) for k,v in out.items())[:12])
