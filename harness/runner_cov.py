"""Coverage driver (C10-C13, C19): builds real covergroup classes from a shape description,
samples them, and records the full projection of every instance and every registered type after
each event.  The runner only drives and records; VscCov.tla (via TLC) judges."""
import contextlib
import enum
import io
import os
import re
import tempfile
import traceback

import vsc
from vsc.impl.coverage_registry import CoverageRegistry

from .runner import exc_name, reset_globals

SCALE = 10000


def q(fn):
    with contextlib.redirect_stdout(io.StringIO()):
        return fn()


def cov_int(x):
    return int(round(float(x) * SCALE))


def safe_cov(fn):
    """coverage getter that raises is reported as the out-of-range figure -1"""
    try:
        return cov_int(q(fn))
    except Exception:
        return -1


def rng_py(r):
    return r[0] if r[0] == r[1] else [r[0], r[1]]


def flat_shape(sh):
    """shape as the specification sees it (total records, no optional keys)"""
    cps = []
    for cp in sh["cps"]:
        w, sg = sh["vars"][cp["var"]]["w"], sh["vars"][cp["var"]].get("signed", False)
        enums = sh["vars"][cp["var"]].get("enum", [])
        lo, hi = (-(1 << (w - 1)), (1 << (w - 1)) - 1) if sg else (0, (1 << w) - 1)
        if enums:
            lo, hi = min(enums), max(enums)
        kind = "explicit" if cp.get("bins") else ("enum" if enums else "auto")
        cps.append({"name": cp["name"], "var": cp["var"], "iff": cp.get("iff", ""), "lo": lo, "hi": hi, "kind": kind,
                    "bins": [{"name": b["name"], "kind": b["kind"], "n": b.get("n", 0),
                              "ranges": [list(r) for r in b.get("ranges", [])],
                              "pats": [list(p) for p in b.get("pats", [])]} for b in cp.get("bins", [])],
                    "ign": [{"name": b["name"], "ranges": [list(r) for r in b["ranges"]]} for b in cp.get("ign", [])],
                    "ill": [{"name": b["name"], "ranges": [list(r) for r in b["ranges"]]} for b in cp.get("ill", [])],
                    "abm": cp.get("abm", 64), "enums": list(enums), "atl": cp.get("atl", sh.get("atl", 1)),
                    "wt": cp.get("wt", 1)})
    xs = [{"name": x["name"], "cps": list(x["cps"]), "iff": x.get("iff", ""), "atl": x.get("atl", sh.get("atl", 1)),
           "wt": x.get("wt", 1)} for x in sh.get("xs", [])]
    return {"cls": sh["cls"], "cps": cps, "xs": xs}


class CovSession:
    def __init__(self, scn):
        self.scn = scn
        self.shapes = scn["shapes"]
        self.classes = {}
        self.enums = {}
        self.insts = []          # (shape name, covergroup object)
        self.events = []
        self.bin_cache = {}      # (shape, coverpoint) -> bins dict shared by every instance (shape option share_bins)
        self.item_cls = {}       # shape -> class of the sampled object (shape option objsample)
        self.items = {}          # shape -> pool of objects handed to sample()
        self.nsample = 0
        self.ctx = {}            # instance index -> sampling context of instances bound at instantiation (shape option bind)

    # ------------------------------------------------------------------ building
    def mk_var(self, sname, vn, vd):
        if vd.get("enum"):
            key = (sname, vn)
            if key not in self.enums:
                self.enums[key] = enum.IntEnum("E_%s" % vn, {("v%d" % v).replace("-", "m"): v for v in vd["enum"]})
            return vsc.enum_t(self.enums[key])
        return (vsc.int_t if vd.get("signed") else vsc.bit_t)(vd["w"])

    def mk_bin(self, b):
        k = b["kind"]
        if k == "bin":
            return vsc.bin(*[rng_py(r) for r in b["ranges"]])
        if k == "array":
            n = b.get("n", 0)
            return vsc.bin_array([] if n == 0 else [n], *[rng_py(r) for r in b["ranges"]])
        if k in ("wild", "wildarray"):
            pats = []
            for i, p in enumerate(b["pats"]):
                if b.get("strs") and b["strs"][i]:
                    pats.append(b["strs"][i])
                else:
                    pats.append((p[0], p[1]))
            if k == "wild":
                return vsc.wildcard_bin(*pats)
            n = b.get("n", 0)
            return vsc.wildcard_bin_array([] if n == 0 else [n], *pats)
        raise ValueError(k)

    def mk_class(self, sname):
        sh = self.shapes[sname]
        sess = self

        if sh.get("objsample"):
            # the covergroup samples an OBJECT: coverpoints read its fields; the caller passes different objects
            def item_init(self):
                for vn, vd in sh["vars"].items():
                    setattr(self, vn, sess.mk_var(sname, vn, vd))
            self.item_cls[sname] = vsc.randobj(type(sh["cls"] + "_item", (object,), {"__init__": item_init}))
            self.items[sname] = [self.item_cls[sname]() for _ in range(sh["objsample"])]

        bind = sh.get("bind", "")
        if bind == "ref":
            # the sampled data is an object handed to the constructor BY REFERENCE; sample() takes no arguments
            def ref_init(self):
                for vn, vd in sh["vars"].items():
                    setattr(self, vn, sess.mk_var(sname, vn, vd))
            self.item_cls[sname] = vsc.randobj(type(sh["cls"] + "_ref", (object,), {"__init__": ref_init}))

        class LambdaSrc:
            """sampling data bound at instantiation through callables reading a per-instance context"""
            def __init__(self, ctx):
                self.ctx = ctx

            def __getattr__(self, vn):
                ctx = self.ctx
                return lambda: ctx[vn]

        def init(self, ctx=None):
            if bind == "lambda":
                src = LambdaSrc(ctx)
            elif bind == "ref":
                src = ctx
            elif sh.get("objsample"):
                self.with_sample(dict(it=sess.item_cls[sname]()))
                src = self.it
            else:
                self.with_sample({vn: sess.mk_var(sname, vn, vd) for vn, vd in sh["vars"].items()})
                src = self
            if "atl" in sh:
                self.options.at_least = sh["atl"]
            cpo = {}
            for cp in sh["cps"]:
                kw = {}
                if cp.get("bins"):
                    if sh.get("share_bins"):
                        # ONE bins specification object serves every coverpoint declared with the same bins and every instance
                        key = (sname, cp.get("bins_of", cp["name"]))
                        if key not in sess.bin_cache:
                            sess.bin_cache[key] = {b["name"]: sess.mk_bin(b) for b in cp["bins"]}
                        kw["bins"] = sess.bin_cache[key]
                    else:
                        kw["bins"] = {b["name"]: sess.mk_bin(b) for b in cp["bins"]}
                if cp.get("ign"):
                    kw["ignore_bins"] = {b["name"]: vsc.bin(*[rng_py(r) if not b.get("as_list") else list(r) for r in b["ranges"]])
                                         for b in cp["ign"]}
                if cp.get("ill"):
                    kw["illegal_bins"] = {b["name"]: vsc.bin(*[rng_py(r) for r in b["ranges"]]) for b in cp["ill"]}
                opts = {}
                for k, ok in (("abm", "auto_bin_max"), ("atl", "at_least"), ("wt", "weight")):
                    if k in cp:
                        opts[ok] = cp[k]
                if opts:
                    kw["options"] = opts
                if cp.get("iff"):
                    kw["iff"] = getattr(src, cp["iff"])
                if bind == "lambda":
                    kw["cp_t"] = sess.mk_var(sname, cp["var"], sh["vars"][cp["var"]])
                c = vsc.coverpoint(getattr(src, cp["var"]), **kw)
                setattr(self, cp["name"], c)
                cpo[cp["name"]] = c
            for x in sh.get("xs", []):
                kw = {}
                opts = {}
                for k, ok in (("atl", "at_least"), ("wt", "weight")):
                    if k in x:
                        opts[ok] = x[k]
                if opts:
                    kw["options"] = opts
                if x.get("iff"):
                    kw["iff"] = getattr(src, x["iff"])
                setattr(self, x["name"], vsc.cross([cpo[n] for n in x["cps"]], **kw))
        T = type(sh["cls"], (object,), {"__init__": init})
        return vsc.covergroup(T)

    # ------------------------------------------------------------------ projection
    @staticmethod
    def model_data(m):
        d = {"h": {}, "ig": {}, "il": {}, "x": {}}
        for cp in m.coverpoint_l:
            d["h"][cp.name] = [cp.get_bin_hits(i) for i in range(cp.get_n_bins())]
            d["ig"][cp.name] = [cp.get_ignore_bin_hits(i) for i in range(cp.get_n_ignore_bins())]
            d["il"][cp.name] = [cp.get_illegal_bin_hits(i) for i in range(cp.get_n_illegal_bins())]
        for cr in m.cross_l:
            d["x"][cr.name] = [cr.get_bin_hits(i) for i in range(cr.get_n_bins())]
        return d

    def observe(self):
        insts, types = [], []
        models = [cg.get_model() for _, cg in self.insts]
        for (sname, cg), m in zip(self.insts, models):
            d = self.model_data(m)
            d["cov"] = safe_cov(cg.get_inst_coverage)
            d["tcov"] = safe_cov(cg.get_coverage)
            d["cpcov"] = {cp.name: safe_cov(cp.get_inst_coverage) for cp in m.coverpoint_l}
            insts.append(d)
        for t in CoverageRegistry.inst().covergroup_types():
            d = self.model_data(t)
            d["members"] = [models.index(i) + 1 for i in t.cg_inst_l if i in models]
            d["cov"] = safe_cov(t.get_inst_coverage)
            types.append(d)
        return {"insts": insts, "types": types}

    # memory projection with names, in the layout shared with the report projections (C13)
    @staticmethod
    def mem_group(m):
        cps = []
        for cp in m.coverpoint_l:
            cps.append({"name": cp.name, "cov": cov_int(cp.get_inst_coverage()),
                        "bins": [[cp.get_bin_name(i), cp.get_bin_hits(i)] for i in range(cp.get_n_bins())],
                        "ign": [[cp.get_ignore_bin_name(i), cp.get_ignore_bin_hits(i)] for i in range(cp.get_n_ignore_bins())],
                        "ill": [[cp.get_illegal_bin_name(i), cp.get_illegal_bin_hits(i)] for i in range(cp.get_n_illegal_bins())]})
        xs = []
        for cr in m.cross_l:
            xs.append({"name": cr.name, "cov": cov_int(cr.get_coverage()),
                       "bins": [[cr.get_bin_name(i), cr.get_bin_hits(i)] for i in range(cr.get_n_bins())]})
        return {"name": m.name, "cps": cps, "xs": xs}

    def mem_proj(self):
        out = []
        for t in CoverageRegistry.inst().covergroup_types():
            g = self.mem_group(t)
            g["name"] = t.typename        # reports identify a type by its class name (the registry's _<n> suffix is internal)
            g["cov"] = cov_int(q(t.get_inst_coverage))
            g["insts"] = []
            for i in t.cg_inst_l:
                gi = self.mem_group(i)
                gi["cov"] = cov_int(q(i.get_inst_coverage))
                g["insts"].append(gi)
            out.append(g)
        return out

    # ------------------------------------------------------------------ report projections
    @staticmethod
    def rpt_group(c):
        def bins(lst):
            return [[b.name, int(b.count)] for b in lst]
        cps = [{"name": cp.name, "cov": cov_int(cp.coverage), "bins": bins(cp.bins), "ign": bins(getattr(cp, "ignore_bins", [])),
                "ill": bins(getattr(cp, "illegal_bins", []))} for cp in c.coverpoints]
        xs = [{"name": x.name, "cov": cov_int(x.coverage), "bins": bins(x.bins)} for x in c.crosses]
        return {"name": c.name, "cps": cps, "xs": xs, "cov": cov_int(c.coverage)}

    def rpt_proj(self, rpt):
        out = []
        for c in rpt.covergroups:
            g = self.rpt_group(c)
            g["insts"] = [self.rpt_group(i) for i in c.covergroups]
            out.append(g)
        return out

    def text_proj(self, txt):
        """parse the details=True text report back into the projection layout"""
        out = []
        cur_t = cur_g = cur_item = None
        for line in txt.splitlines():
            ind = len(line) - len(line.lstrip(" "))
            s = line.strip()
            m = re.match(r"(TYPE|INST|CVP|CROSS) (.*) : ([0-9.]+)%$", s)
            if m:
                kind, name, pct = m.group(1), m.group(2).strip(), m.group(3)
                if kind == "TYPE":
                    cur_t = {"name": name, "cps": [], "xs": [], "cov": cov_int(pct), "insts": []}
                    out.append(cur_t)
                    cur_g = cur_t
                elif kind == "INST":
                    cur_g = {"name": name, "cps": [], "xs": [], "cov": cov_int(pct)}
                    cur_t["insts"].append(cur_g)
                elif kind == "CVP":
                    cur_item = {"name": name, "cov": cov_int(pct), "bins": [], "ign": [], "ill": []}
                    cur_g["cps"].append(cur_item)
                    cur_sect = "bins"
                else:
                    cur_item = {"name": name, "cov": cov_int(pct), "bins": []}
                    cur_g["xs"].append(cur_item)
                    cur_sect = "bins"
                continue
            if s in ("Bins:",):
                cur_sect = "bins"
                continue
            if s in ("Ignore Bins:", "IgnoreBins:"):
                cur_sect = "ign"
                continue
            if s in ("Illegal Bins:", "IllegalBins:"):
                cur_sect = "ill"
                continue
            m = re.match(r"(.*) : (\d+)$", s)
            if m and cur_item is not None:
                cur_item.setdefault(cur_sect, []).append([m.group(1).strip(), int(m.group(2))])
        return out

    # ------------------------------------------------------------------ ops
    def guarded(self, fn):
        try:
            q(fn)
            return "none"
        except Exception as e:
            return exc_name(e)

    def run(self):
        reset_globals()
        CoverageRegistry.clear()
        for op in self.scn["ops"]:
            if op["op"] in ("sample", "sweep") and op["inst"] > len(self.insts):
                break            # an earlier construction failed: its event already carries the exception
            getattr(self, "op_" + op["op"])(op)
        return self.events

    def op_new(self, op):
        sname = op["shape"]

        def do():
            if sname not in self.classes:
                self.classes[sname] = self.mk_class(sname)
            bind = self.shapes[sname].get("bind", "")
            if bind == "lambda":
                ctx = {vn: 0 for vn in self.shapes[sname]["vars"]}
                cg = self.classes[sname](ctx)
            elif bind == "ref":
                ctx = self.item_cls[sname]()
                cg = self.classes[sname](ctx)
            else:
                ctx, cg = None, self.classes[sname]()
            self.ctx[len(self.insts)] = ctx
            self.insts.append((sname, cg))
        e = self.guarded(do)
        self.events.append({"op": "new", "shape": sname, "exc": e, "obs": self.observe()})

    def sample_args(self, sname, vals):
        sh = self.shapes[sname]
        args = []
        for vn, vd in sh["vars"].items():
            v = vals[vn]
            args.append(self.enums[(sname, vn)](v) if vd.get("enum") else v)
        if sh.get("objsample"):
            # hand over one of the pooled objects (in turn) carrying the values
            pool = self.items[sname]
            it = pool[self.nsample % len(pool)]
            self.nsample += 1
            for (vn, vd), a in zip(sh["vars"].items(), args):
                setattr(it, vn, a)
            return [it]
        return args

    def do_sample(self, inst, vals):
        """one sample of instance `inst` (1-based) with the given values, through the shape's way of providing data"""
        sname, cg = self.insts[inst - 1]
        bind = self.shapes[sname].get("bind", "")
        args = self.sample_args(sname, vals) if bind != "ref" else None
        if bind == "lambda":
            self.ctx[inst - 1].update(dict(zip(self.shapes[sname]["vars"], args)))
            cg.sample()
        elif bind == "ref":
            for vn, vd in self.shapes[sname]["vars"].items():
                setattr(self.ctx[inst - 1], vn, self.enums[(sname, vn)](vals[vn]) if vd.get("enum") else vals[vn])
            cg.sample()
        else:
            cg.sample(*args)

    def op_sample(self, op):
        e = self.guarded(lambda: self.do_sample(op["inst"], op["vals"]))
        self.events.append({"op": "sample", "inst": op["inst"], "vals": op["vals"], "exc": e, "obs": self.observe()})

    def op_sweep(self, op):
        def do():
            for vals in op["seq"]:
                self.do_sample(op["inst"], vals)
        e = self.guarded(do)
        self.events.append({"op": "sweep", "inst": op["inst"], "seq": op["seq"], "exc": e, "obs": self.observe()})

    def op_report(self, op):
        ev = {"op": "report", "exc": "none"}
        views = op.get("views", ["model", "text", "xml"])

        def do():
            if "model" in views:
                ev["model"] = self.rpt_proj(vsc.get_coverage_report_model())
            if "text" in views:
                ev["text"] = self.text_proj(vsc.get_coverage_report(details=True))
            if "xml" in views:
                from ucis.xml.xml_factory import XmlFactory
                from ucis.report.coverage_report_builder import CoverageReportBuilder
                fd, path = tempfile.mkstemp(suffix=".xml", dir=os.environ.get("VERIF_TMP", None))
                os.close(fd)
                try:
                    vsc.write_coverage_db(path)
                    ev["xml"] = self.rpt_proj(CoverageReportBuilder.build(XmlFactory.read(path)))
                finally:
                    os.unlink(path)
        ev["exc"] = self.guarded(do)
        ev["mem"] = self.mem_proj()
        for k in ("mem", "model", "text", "xml"):
            if k in ev:
                ev[k] = split_proj(ev[k])
        ev["obs"] = self.observe()
        self.events.append(ev)


def split_proj(proj):
    """(struct, covs): names and counts with the coverage figures pulled out into a flat list in
    traversal order, so that the specification can compare structure exactly and figures closely"""
    covs = []

    def grp(g):
        covs.append(g["cov"])
        out = {"name": g["name"], "cps": [], "xs": []}
        for cp in g["cps"]:
            covs.append(cp["cov"])
            out["cps"].append({k: v for k, v in cp.items() if k != "cov"})
        for x in g["xs"]:
            covs.append(x["cov"])
            out["xs"].append({k: v for k, v in x.items() if k != "cov"})
        return out
    st = []
    for t in proj:
        g = grp(t)
        g["insts"] = [dict(grp(i), name="") for i in t["insts"]]     # instance names are made unique by the save visitor
        st.append(g)
    return {"st": st, "covs": covs}


def run_scenario(scn, seed=0):
    import random as _random
    import zlib
    _random.seed(zlib.crc32(scn["id"].encode()) ^ 0x5eed)     # Python's global generator seeds every default RandState
    s = CovSession(scn)
    W = {"shapes": {n: flat_shape(sh) for n, sh in scn["shapes"].items()}}
    try:
        return {"id": scn["id"], "world": W, "events": s.run()}
    except Exception as e:
        return {"id": scn["id"], "world": W, "events": s.events,
                "harness_error": "%s: %s\n%s" % (type(e).__name__, e, traceback.format_exc())}
