"""C11 - cross bins count joint hits of their coverpoints."""
from .. import engine, fam_cov

LEVEL = "model_checking"
MODULE = "Trace_VscCov"
RUNNER = ("runner_cov", "run_scenario")


def run(tier, seed, limit=0):
    chk = engine.Check("C11", tier, seed)
    scs = fam_cov.family_cross(tier, seed)
    if limit:
        scs = scs[:limit]
    chk.run_scenarios(scs, MODULE, fn=RUNNER, batch_events=2500)
    if tier != "quick":
        # every sample sequence on the requirement machine: a cross hit comes with a hit of each crossed coverpoint, at most one
        # per sample, none while a gate is off (action properties OneHitPerSample, invariant CrossBounded)
        chk.run_mc("MC_VscCov", {"MaxInst": 2, "MaxHits": 2, "AtL": 1, "W1": 1, "W2": 1}, workers=12, label="coverage machine: cross hits")
    return chk.finish(LEVEL, "random bin specifications (explicit bins, arrays with/without count, unordered/adjacent disjoint ranges, "
                      "ignore/illegal sets, auto-bins with auto_bin_max, enum, iff, signed types) each sampled with every value of the "
                      "type plus repeats and gated-off samples; TLC recomputes Partition(Values \\ Excluded, n) and every counter after "
                      "every event; distinct = distinct event content",
                      ["TLC 1.8; Cov.tla declarative bin semantics; CPython"])
