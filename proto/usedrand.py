import sys, io, contextlib
sys.path.insert(0,'/verif/proto'); import btorshim
import vsc
def q(f):
    with contextlib.redirect_stdout(io.StringIO()): return f()
@vsc.randobj
class Sub:
    def __init__(self): self.x=vsc.rand_bit_t(8); self.n=vsc.bit_t(8)
@vsc.randobj
class Top:
    def __init__(self):
        self.r=vsc.rand_attr(Sub()); self.s=vsc.attr(Sub()); self.y=vsc.rand_bit_t(8); self.k=vsc.bit_t(8)
        self.l=vsc.rand_list_t(vsc.bit_t(8),2); self.nl=vsc.list_t(vsc.bit_t(8),2)
def snap(t): return dict(rx=t.r.x,rn=t.r.n,sx=t.s.x,sn=t.s.n,y=t.y,k=t.k,l=tuple(t.l),nl=tuple(t.nl))
def changed(t,f,n=12):
    ch=set()
    for i in range(n):
        b=snap(t); q(f); a=snap(t)
        ch|={k for k in a if a[k]!=b[k]}
    return sorted(ch)
t=Top()
print("t.randomize           :", changed(t,t.randomize))
print("vsc.randomize(t)      :", changed(t,lambda: vsc.randomize(t)))
print("vsc.randomize(t.s)    :", changed(t,lambda: vsc.randomize(t.s)))
print("t.s.randomize()       :", changed(t,lambda: t.s.randomize()))

with vsc.raw_mode():
    fk=t.k; fy=t.y; frx=t.r.x; fsn=t.s.n
print("vsc.randomize(t.k)    :", changed(t,lambda: vsc.randomize(fk)))
print("vsc.randomize(t.y)    :", changed(t,lambda: vsc.randomize(fy)))
print("vsc.randomize(t.r.x,t.y):", changed(t,lambda: vsc.randomize(frx,fy)))
print("vsc.randomize(t.s.n)  :", changed(t,lambda: vsc.randomize(fsn)))
with vsc.raw_mode(): t.r.x.rand_mode=False
print("after r.x rand_mode off, t.randomize:", changed(t,t.randomize))
print("   ... vsc.randomize(t.r.x) with rand_mode off:", changed(t,lambda: vsc.randomize(frx)))
with vsc.raw_mode(): t.r.x.rand_mode=True
