import sys, io, contextlib, time
import vsc
from vsc.impl.coverage_registry import CoverageRegistry
def mk(bins, w=4):
    class CG(object):
        def __init__(self):
            self.with_sample(dict(a=vsc.bit_t(w), b=vsc.bit_t(2)))
            self.cp_a = vsc.coverpoint(self.a, bins=bins)
            self.cp_b = vsc.coverpoint(self.b, bins={"x": vsc.bin_array([], [0,3])})
            self.cr = vsc.cross([self.cp_a, self.cp_b])
    CG.__name__="CG"
    return vsc.covergroup(CG)
T=mk({"lo": vsc.bin([0,3]), "arr": vsc.bin_array([2],[4,10]), "one": vsc.bin(12,14)})
t0=time.time()
with contextlib.redirect_stdout(io.StringIO()):
    cg=T(); cg2=T()
    for v in range(16):
        cg.sample(v, v%4)
m=cg.get_model()
cp=m.coverpoint_l[0]
print([ (cp.get_bin_name(i), cp.get_bin_hits(i)) for i in range(cp.get_n_bins())])
cr=m.cross_l[0]
print(cr.get_n_bins(), [(cr.get_bin_name(i), cr.get_bin_hits(i)) for i in range(cr.get_n_bins())][:6])
with contextlib.redirect_stdout(io.StringIO()):
    print(cg.get_coverage(), cg.get_inst_coverage(), cg2.get_inst_coverage(), file=sys.stderr)
print("t", time.time()-t0)
rpt = vsc.get_coverage_report_model()
print([ (c.name, c.coverage, [ (i.name, i.coverage) for i in c.covergroups]) for c in rpt.covergroups])
