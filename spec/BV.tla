------------------------------- MODULE BV -------------------------------
(***************************************************************************)
(* Bit-vectors of arbitrary width as little-endian sequences of 0/1.      *)
(* TLC integers are 32-bit, pyvsc evaluates Python int literals in a      *)
(* 32-bit (or wider) context, so native arithmetic cannot be used.        *)
(* All operators are O(w) recursive *operators* with accumulators (a      *)
(* LET-bound recursive function is evaluated exponentially by TLC).       *)
(* The distinguished value U == <<2>> is "undefined" (open zone).         *)
(***************************************************************************)
EXTENDS Naturals, Sequences, FiniteSets

U == <<2>>
IsU(v) == v = U

Zero(w) == [i \in 1..w |-> 0]
Ones(w) == [i \in 1..w |-> 1]

\* natural number -> w-bit vector (n < 2^31); truncates
RECURSIVE NatBits(_, _)
NatBits(n, w) == IF w = 0 THEN << >> ELSE <<n % 2>> \o NatBits(n \div 2, w - 1)

\* vector -> natural (only meaningful for Len(v) <= 30)
RECURSIVE ToNatRec(_, _, _)
ToNatRec(v, i, acc) == IF i = 0 THEN acc ELSE ToNatRec(v, i - 1, 2 * acc + v[i])
ToNat(v) == ToNatRec(v, Len(v), 0)

Msb(v) == v[Len(v)]

Zext(v, w) == IF Len(v) >= w THEN SubSeq(v, 1, w) ELSE v \o Zero(w - Len(v))
Sext(v, w) == IF Len(v) >= w THEN SubSeq(v, 1, w)
              ELSE v \o [i \in 1..(w - Len(v)) |-> Msb(v)]
Ext(v, w, signed) == IF signed THEN Sext(v, w) ELSE Zext(v, w)

BNot(v) == [i \in 1..Len(v) |-> 1 - v[i]]
BAnd(a, b) == [i \in 1..Len(a) |-> a[i] * b[i]]
BOr(a, b)  == [i \in 1..Len(a) |-> IF a[i] + b[i] > 0 THEN 1 ELSE 0]
BXor(a, b) == [i \in 1..Len(a) |-> (a[i] + b[i]) % 2]

RECURSIVE AddRec(_, _, _, _, _)
AddRec(a, b, i, c, acc) ==
  IF i > Len(a) THEN acc
  ELSE LET s == a[i] + b[i] + c IN AddRec(a, b, i + 1, s \div 2, Append(acc, s % 2))
AddC(a, b, c0) == AddRec(a, b, 1, c0, << >>)
Add(a, b) == AddC(a, b, 0)
Sub(a, b) == AddC(a, BNot(b), 1)
Neg(a) == Sub(Zero(Len(a)), a)

RECURSIVE UltRec(_, _, _)
UltRec(a, b, i) == IF i = 0 THEN FALSE
                   ELSE IF a[i] # b[i] THEN a[i] < b[i] ELSE UltRec(a, b, i - 1)
Ult(a, b) == UltRec(a, b, Len(a))
Ule(a, b) == ~Ult(b, a)
Slt(a, b) == IF Msb(a) # Msb(b) THEN Msb(a) = 1 ELSE Ult(a, b)
Sle(a, b) == ~Slt(b, a)

IsZero(v) == \A i \in 1..Len(v) : v[i] = 0

Shl(v, n) == LET w == Len(v) IN [i \in 1..w |-> IF i - n >= 1 THEN v[i - n] ELSE 0]
Lshr(v, n) == LET w == Len(v) IN [i \in 1..w |-> IF i + n <= w THEN v[i + n] ELSE 0]

\* shift amount given as a vector: any set bit at position >= 8 saturates
AmtSmall(v) == \A i \in 1..Len(v) : i > 7 => v[i] = 0
AmtNat(v) == ToNat(SubSeq(v, 1, IF Len(v) < 7 THEN Len(v) ELSE 7))
ShlV(v, s) == IF AmtSmall(s) THEN Shl(v, AmtNat(s)) ELSE Zero(Len(v))
LshrV(v, s) == IF AmtSmall(s) THEN Lshr(v, AmtNat(s)) ELSE Zero(Len(v))

RECURSIVE MulRec(_, _, _, _)
MulRec(a, b, i, acc) ==
  IF i > Len(a) THEN acc
  ELSE MulRec(a, b, i + 1, IF b[i] = 1 THEN Add(acc, Shl(a, i - 1)) ELSE acc)
Mul(a, b) == MulRec(a, b, 1, Zero(Len(a)))

\* restoring long division; callers must exclude b = 0
RECURSIVE DivRec(_, _, _, _, _)
DivRec(a, b, bitpos, q, r) ==
  IF bitpos = 0 THEN <<q, r>>
  ELSE LET w == Len(a)
           r2 == <<a[bitpos]>> \o SubSeq(r, 1, w - 1)
       IN IF r[w] = 1 \/ Ule(b, r2)
          THEN DivRec(a, b, bitpos - 1, [q EXCEPT ![bitpos] = 1], Sub(r2, b))
          ELSE DivRec(a, b, bitpos - 1, q, r2)
DivRem(a, b) == DivRec(a, b, Len(a), Zero(Len(a)), Zero(Len(a)))
Udiv(a, b) == DivRem(a, b)[1]
Urem(a, b) == DivRem(a, b)[2]
Abs(a) == IF Msb(a) = 1 THEN Neg(a) ELSE a
\* SystemVerilog / SMT-LIB signed division: truncates toward zero; remainder takes the dividend's sign
Sdiv(a, b) == LET q == Udiv(Abs(a), Abs(b)) IN IF Msb(a) # Msb(b) THEN Neg(q) ELSE q
Srem(a, b) == LET r == Urem(Abs(a), Abs(b)) IN IF Msb(a) = 1 THEN Neg(r) ELSE r

Slice(v, hi, lo) == SubSeq(v, lo + 1, hi + 1)

\* all w-bit vectors (w small)
AllVecs(w) == {NatBits(n, w) : n \in 0..(2^w - 1)}

\* mathematical-integer view for small widths (w <= 30): <<neg, magnitude>>
SignedNat(v) == IF Msb(v) = 1 THEN <<TRUE, ToNat(Neg(v))>> ELSE <<FALSE, ToNat(v)>>
=============================================================================
