"""C13 - coverage reports and saved databases equal the in-memory coverage."""
from .. import engine, fam_cov, fam_mc

LEVEL = "model_checking"
MODULE = "Trace_VscCov"
RUNNER = ("runner_cov", "run_scenario")


def run(tier, seed, limit=0):
    chk = engine.Check("C13", tier, seed)
    scs = fam_cov.family_types(tier, seed, reports=True) + fam_cov.family_report_kinds(tier, seed)
    mc_scs, sim_states = fam_mc.family_mc_cov(tier, seed, reports=True)      # TLC-generated behaviours of MC_VscCov, replayed
    scs = scs + mc_scs
    chk.extra_cov["tlc_generated_histories_replayed"] = len(mc_scs)
    chk.extra_cov["tlc_simulation_states"] = sim_states
    if limit:
        scs = scs[:limit]
    chk.run_scenarios(scs, MODULE, fn=RUNNER, batch_events=2500)
    return chk.finish(LEVEL, "report model, parsed text report (details=True) and UCIS XML read back, requested at arbitrary points of creation/sampling "
                      "histories over all bin kinds (regular, ignore, illegal, arrays, wildcard, crosses) and after TLC-generated behaviours of "
                      "MC_VscCov: names, kinds, counts compared exactly with the in-memory projection, percentages with the specification's "
                      "figures; the state after the report equals the state before; distinct = distinct event content",
                      ["TLC 1.8; Cov.tla declarative bin semantics; CPython"])
