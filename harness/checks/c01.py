"""C01 - returned values satisfy every active hard constraint and their declared type."""
from .. import engine, fam_expr

LEVEL = "model_checking"


def scenarios(tier, seed):
    return fam_expr.family_E(tier, seed) + fam_expr.family_S(tier, seed) + fam_expr.family_Q(tier, seed) + fam_expr.family_Wd(tier, seed) + fam_expr.family_G(tier, seed) + fam_expr.family_K(tier, seed)


def run(tier, seed, limit=0):
    chk = engine.Check("C01", tier, seed)
    scs = scenarios(tier, seed)
    if limit:
        scs = scs[:limit]
    chk.run_scenarios(scs, "Trace_VscRand")
    chk.run_mc("MC_VscRand", {"MaxLevel": 4 if tier == "quick" else 6}, workers=12, label="A-level API machine on world W-flags")
    return chk.finish(LEVEL, "family E/S programs x exhaustive truth tables; non-trivial = accepted scenario with distinct event content",
                      ["TLC 1.8; BV/Expr reference semantics; world->DSL compiler"])
