----------------------------- MODULE MC_VscRand -----------------------------
(***************************************************************************)
(* Model checking of the requirement-level API state machine VscRand on a  *)
(* small fixed world (W-flags: class A{a,b rand 2 bit; k non-rand; blocks  *)
(* c1: a<b, c2: a!=k + soft b==2; dynamic d1: b==3, d2: a==0}, class B(A)  *)
(* overriding c1: a>b; objects o1,o2:A, o3:B).                              *)
(*                                                                         *)
(* The actions quantify over *possible events* and use the very same        *)
(* Clauses / Effect operators the trace specification applies to recorded  *)
(* events, so the properties below are checked on the text that judges the *)
(* implementation.  `hist` carries the operation skeleton of a behaviour;  *)
(* in simulation mode it is printed as JSON and replayed into pyvsc.        *)
(***************************************************************************)
EXTENDS VscRand, Json, IOUtils, TLCExt
CONSTANTS MaxLevel
VARIABLES S, hist, last
vars == <<S, hist, last>>

In == JsonDeserialize("mc/w_flags.json")
W == In.world
Inl == In.inlines
InlNames == DOMAIN Inl
Objs == {"o1", "o2", "o3"}
StkZero == [expr_l |-> 0]

Vals2 == AllVecs(2)
Alive(o) == o \in S.alive

\* events the environment may produce in state S (arguments only; outcomes are chosen below)
CallOf(o, i) == [kind |-> "with", roots |-> <<o>>, owner |-> o, inline |-> Inl[i]]

Construct(o) ==
  LET ev0 == [op |-> "construct", o |-> o, exc |-> "none", stk |-> StkZero]
      ev  == ev0 @@ [post |-> Proj(ConstructEffect(W, S, ev0))]
  IN /\ Failed(Clauses(W, S, ev)) = {}
     /\ S' = Effect(W, S, ev) /\ hist' = Append(hist, [op |-> "construct", o |-> o]) /\ last' = "construct"
SetK(o, v) ==
  LET p  == o \o ".k"
      ev == [op |-> "set", p |-> p, v |-> v, exc |-> "none", stk |-> StkZero, post |-> Proj([S EXCEPT !.vals[p] = v])]
  IN /\ Alive(o) /\ S.vals[p] # v
     /\ Failed(Clauses(W, S, ev)) = {}
     /\ S' = Effect(W, S, ev) /\ hist' = Append(hist, [op |-> "set", p |-> p, v |-> v]) /\ last' = "set"
RandMode(o, f, b) ==
  LET p  == o \o "." \o f
      ev == [op |-> "rand_mode", p |-> p, b |-> b, exc |-> "none", stk |-> StkZero, post |-> Proj(S)]
  IN /\ Alive(o) /\ S.rmode[p] # b
     /\ Failed(Clauses(W, S, ev)) = {}
     /\ S' = Effect(W, S, ev) /\ hist' = Append(hist, [op |-> "rand_mode", p |-> p, b |-> b]) /\ last' = "rand_mode"
CMode(o, blk, b) ==
  LET ev == [op |-> "cmode", o |-> o, b |-> blk, en |-> b, exc |-> "none", stk |-> StkZero, post |-> Proj(S)]
  IN /\ Alive(o) /\ S.cmode[CKey(o, blk)] # b
     /\ Failed(Clauses(W, S, ev)) = {}
     /\ S' = Effect(W, S, ev) /\ hist' = Append(hist, [op |-> "cmode", o |-> o, b |-> blk, en |-> b]) /\ last' = "cmode"
\* a randomize_with call: the outcome is ANY behaviour the specification admits -
\* SolveFailure with unchanged state, or any assignment the clauses accept
Call(o, i) ==
  /\ Alive(o)
  /\ LET call == CallOf(o, i)
         base == [op |-> "call", call |-> call, pre |-> Proj(S), cbs |-> << >>, stk |-> StkZero, views |-> << >>]
         cands == Candidates(W, S, call, S.vals)
     IN \/ \E e \in cands :
             LET ev == base @@ [exc |-> "none", post |-> [v |-> e, sz |-> S.sz]] IN
             /\ Failed(Clauses(W, S, ev)) = {}
             /\ S' = Effect(W, S, ev) /\ last' = "ok"
        \/ LET ev == base @@ [exc |-> "SolveFailure", post |-> Proj(S)] IN
             /\ Failed(Clauses(W, S, ev)) = {}
             /\ S' = Effect(W, S, ev) /\ last' = "fail"
  /\ hist' = Append(hist, [op |-> "call", o |-> o, inline |-> i])

Init == S = EmptyState /\ hist = << >> /\ last = "init"
Next == \E o \in Objs :
          \/ Construct(o)
          \/ \E v \in Vals2 : SetK(o, v)
          \/ \E f \in {"a", "b"} : \E b \in BOOLEAN : RandMode(o, f, b)
          \/ \E blk \in {"c1", "c2"} : \E b \in BOOLEAN : CMode(o, blk, b)
          \/ \E i \in InlNames : Call(o, i)
Spec == Init /\ [][Next]_vars
View == <<S, last>>
Bound == TLCGet("level") <= MaxLevel

(* ------------------------------ properties ------------------------------ *)
\* C01/C18: every value the specification ever holds is inside its declared type
TypeOK == \A x \in DOMAIN S.vals : InType(W, x, S.vals[x])
\* C01: right after an accepted successful plain-or-inline call the values satisfy the enabled class blocks
\*      of the object (the inline part belonged to that call only)
ClassBlocksHoldAfterOk ==
  last = "ok" =>
    LET o == hist[Len(hist)].o IN
    HardAll(W, S, CallOf(o, "none"), S.vals, S.sz) = "T"
\* C02: the specification never accepts a failure of a satisfiable call nor a success of an unsatisfiable one
FailIffUnsat ==
  [][\A o \in Objs : \A i \in InlNames :
        (Alive(o) /\ hist' = Append(hist, [op |-> "call", o |-> o, inline |-> i]))
          => ((last' = "fail") <=> (Sol(W, S, CallOf(o, i), S.vals) = {}))]_vars
\* C03: a call changes only what is random in it - in ALL objects
NonRandFrozen ==
  [][\A o \in Objs : \A i \in InlNames :
        (Alive(o) /\ hist' = Append(hist, [op |-> "call", o |-> o, inline |-> i]))
          => \A x \in DOMAIN S.vals : x \notin UsedRand(W, S, {o}) => S'.vals[x] = S.vals[x]]_vars
\* C07: toggling a block of one instance never changes the solution set of another instance
TogglePerInstance ==
  [][\A o \in Objs : \A blk \in {"c1", "c2"} : \A b \in BOOLEAN :
        (hist' = Append(hist, [op |-> "cmode", o |-> o, b |-> blk, en |-> b]))
          => \A p \in S.alive \ {o} : Sol(W, S', CallOf(p, "none"), S'.vals) = Sol(W, S, CallOf(p, "none"), S.vals)]_vars
\* C06: an inline / dynamic term never outlives its call: the plain solution set of every object depends on the
\*      state only (it is a function of S, and S has no component for past inline blocks) - checked as: two
\*      reachable states with equal S have equal Sol, trivially true; the non-trivial part is that a call with
\*      dynamic references constrains the referent o and leaves every other object untouched (NonRandFrozen).
\* C05: a successful call never violates a soft constraint that could have been honoured
SoftNeverFatal ==
  [][\A o \in Objs : (Alive(o) /\ hist' = Append(hist, [op |-> "call", o |-> o, inline |-> "soft_b1"]))
        => ((last' = "fail") <=> (Sol(W, S, CallOf(o, "none"), S.vals) = {}))]_vars

\* simulation mode: print the skeleton of every behaviour that reaches the depth bound
EmitAtDepth == IF Len(hist) = MaxLevel - 1 THEN PrintT(<<"HIST", ToJson(hist)>>) ELSE TRUE
=============================================================================
