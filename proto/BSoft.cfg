CONSTANT U = {1,2,3,4}
CONSTANT NSoft = 3
INIT Init
NEXT Next
CHECK_DEADLOCK FALSE
