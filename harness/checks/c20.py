"""C20 - solve_order decouples the earlier variable's distribution from the later one."""
from .. import engine, fam_dist

LEVEL = "model_checking"


def run(tier, seed, limit=0):
    chk = engine.Check("C20", tier, seed)
    scs = fam_dist.family_order(tier, seed)
    if limit:
        scs = scs[:limit]
    chk.run_scenarios(scs, "Trace_VscRand")
    return chk.finish(LEVEL, "systems with solve_order (single fields, lists of fields, chains) over 2..3-bit domains: identical pin-probe "
                      "truth table with and without the directive; exhaustive draw-path enumeration: no path fails or raises, every "
                      "feasible value of the earlier variable has positive probability, exactly uniform when the feasible values fill "
                      "the inferred range (hook), and program pairs differing only in the number of later values per earlier value have "
                      "identical marginals (memo in the specification state)",
                      ["TLC 1.8; exact path probabilities accumulated with Python fractions.Fraction; hook payload for the inferred range"])
