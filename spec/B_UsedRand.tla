----------------------------- MODULE B_UsedRand -----------------------------
(***************************************************************************)
(* Mechanism-level model of how pyvsc decides which fields a call solves    *)
(* for (C03, C08, C17): every field model carries a persistent flag         *)
(* is_used_rand that is                                                     *)
(*   (1) recomputed top-down from the roots passed to the call              *)
(*       (set_used_rand(True, level)): a field is used-random iff its       *)
(*       parent is and it is declared random with rand_mode on, or it is a  *)
(*       root itself;                                                       *)
(*   (2) cleared for fields the call's constraints only reference           *)
(*       (RefFieldsNonCallVisitor.lock - added by the fix for the stale     *)
(*       flag defect; LockNonCall = FALSE models the code before the fix);  *)
(*   (3) cleared after a successful solve for every solved field            *)
(*       (set_used_rand(False)), and left alone when the solve fails.       *)
(* Obligation B |= A: at solve time the fields the solver treats as         *)
(* variables are exactly UsedRand of the requirement level, for every       *)
(* history of toggles, successful and failed calls.                         *)
(*                                                                         *)
(* World: top object R {f1 rand, f2 non-rand, S: rand sub-object {g rand},  *)
(* T: non-rand sub-object {h rand-declared}}, top object P {p rand},        *)
(* standalone rand field x.                                                 *)
(***************************************************************************)
EXTENDS Naturals, Sequences, FiniteSets, TLC
CONSTANTS LockNonCall, MaxLevel
VARIABLES used, rmode, solved
vars == <<used, rmode, solved>>

Scalars == {"R.f1", "R.f2", "R.S.g", "R.T.h", "P.p", "x"}
Comps   == {"R", "R.S", "R.T", "P"}
Parent  == [n \in Scalars \cup Comps |->
              CASE n = "R.f1" -> "R" [] n = "R.f2" -> "R" [] n = "R.S" -> "R" [] n = "R.T" -> "R"
                [] n = "R.S.g" -> "R.S" [] n = "R.T.h" -> "R.T" [] n = "P.p" -> "P" [] OTHER -> ""]
Decl    == [n \in Scalars \cup Comps |-> n \notin {"R.f2", "R.T"}]       \* declared random?
RECURSIVE Under(_, _)
Under(n, r) == n = r \/ (Parent[n] # "" /\ Under(Parent[n], r))
RootChoices == {{"R"}, {"P"}, {"x"}, {"R.S"}, {"R", "x"}, {"P", "x"}}

\* requirement level: random for a call with the given roots
RECURSIVE UsedA(_, _, _)
UsedA(n, roots, rm) == n \in roots \/ (Parent[n] # "" /\ Decl[n] /\ rm[n] /\ UsedA(Parent[n], roots, rm))

\* (1) the top-down recomputation
RECURSIVE Recomp(_, _, _, _)
Recomp(n, roots, rm, u) ==     \* value of the flag of n after set_used_rand from the roots; untouched if not under a root
  IF \E r \in roots : Under(n, r)
  THEN IF n \in roots THEN TRUE ELSE Decl[n] /\ rm[n] /\ Recomp(Parent[n], roots, rm, u)
  ELSE u[n]

Init == /\ used = [n \in Scalars \cup Comps |-> Decl[n]]            \* FieldScalarModel.__init__: is_used_rand = is_rand
        /\ rmode = [n \in Scalars \cup Comps |-> TRUE]
        /\ solved = {}
Toggle(n) == /\ n \in {"R.f1", "R.S.g", "P.p"} /\ rmode' = [rmode EXCEPT ![n] = ~@] /\ UNCHANGED <<used, solved>>
Call(roots, refs, ok) ==
  LET scope == {n \in Scalars : \E r \in roots : Under(n, r)} \cup refs
      u1 == [n \in Scalars \cup Comps |-> Recomp(n, roots, rmode, used)]
      u2 == IF LockNonCall THEN [n \in Scalars \cup Comps |-> IF n \in refs /\ ~\E r \in roots : Under(n, r) THEN FALSE ELSE u1[n]]
            ELSE u1
      vars_ == {n \in scope : u2[n]}                                  \* what the solver treats as variables
  IN /\ solved' = vars_
     /\ used' = IF ok THEN [n \in Scalars \cup Comps |-> IF n \in vars_ THEN FALSE ELSE u2[n]] ELSE u2
     /\ UNCHANGED rmode
Next == \/ \E n \in Scalars : Toggle(n)
        \/ \E roots \in RootChoices : \E refs \in SUBSET {"R.f1", "P.p", "x", "R.S.g"} : \E ok \in BOOLEAN : Call(roots, refs, ok)
Spec == Init /\ [][Next]_vars
Bound == TLCGet("level") <= MaxLevel

\* B |= A: the solver's variables are exactly the requirement-level random fields of the call
SolvedIsUsedRand ==
  [][\A roots \in RootChoices : \A refs \in SUBSET {"R.f1", "P.p", "x", "R.S.g"} : \A ok \in BOOLEAN :
        Call(roots, refs, ok) =>
          solved' = {n \in Scalars : (\E r \in roots : Under(n, r)) /\ UsedA(n, roots, rmode)}]_vars
=============================================================================
