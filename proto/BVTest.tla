------------------------------- MODULE BVTest -------------------------------
EXTENDS BV, TLC, Integers
CONSTANT W
VARIABLE done
Vals == 0..(2^W - 1)
P2 == 2^W
Check ==
  \A x \in Vals, y \in Vals :
    LET a == NatBits(x, W) b == NatBits(y, W) IN
      /\ ToNat(Add(a, b)) = (x + y) % P2
      /\ ToNat(Sub(a, b)) = (x - y + P2) % P2
      /\ ToNat(Mul(a, b)) = (x * y) % P2
      /\ Ult(a, b) = (x < y)
      /\ (y # 0 => ToNat(Udiv(a, b)) = x \div y /\ ToNat(Urem(a, b)) = x % y)
      /\ ToNat(BAnd(a, b)) <= x
      /\ ToNat(Zext(Sext(a, W + 3), W)) = x
      /\ (y < W + 2 => ToNat(Shl(a, y)) = (x * 2^y) % P2)
      /\ (y < W + 2 => ToNat(Lshr(a, y)) = x \div 2^y)
Init == done = FALSE
Next == done = FALSE /\ Assert(Check, "BV mismatch") /\ done' = TRUE
Spec == Init /\ [][Next]_done
=============================================================================
