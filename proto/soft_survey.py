import sys, io, contextlib, itertools, collections, random
sys.path.insert(0,'/verif/proto'); import btorshim
import vsc
from vsc.model.solve_failure import SolveFailure
from vsc.impl import ctor, expr_mode
def q(f):
    with contextlib.redirect_stdout(io.StringIO()): return f()
U=[0,1,2,3]
subsets=[list(s) for r in range(1,5) for s in itertools.combinations(U,r)]
rnd=random.Random(5); bad=collections.Counter(); ex={}
def ref(hard,softs):
    kept=[]; cur=set(hard)
    for i in reversed(range(len(softs))):
        if cur & set(softs[i]): cur&=set(softs[i]); kept.append(i)
    return sorted(kept),cur
N=0
for t in range(400):
    hard=rnd.choice(subsets); softs=[rnd.choice(subsets) for _ in range(3)]
    inline=rnd.choice([None]+subsets) if rnd.random()<0.4 else None
    def mk():
        def init(self): self.x=vsc.rand_bit_t(2)
        def body(self):
            self.x.inside(vsc.rangelist(*hard))
            for s in softs: vsc.soft(self.x.inside(vsc.rangelist(*s)))
        return vsc.randobj(type("S",(object,),{"__init__":init,"blk":vsc.constraint(body)}))()
    ctor.test_setup(); expr_mode._expr_mode.clear()
    o=q(mk)
    allsofts=softs+([inline] if inline else [])
    kept,cur=ref(hard,allsofts)
    for rep in range(3):
        try:
            if inline:
                def w():
                    with o.randomize_with() as it: vsc.soft(it.x.inside(vsc.rangelist(*inline)))
                q(w)
            else: q(o.randomize)
        except SolveFailure: bad["fail"]+=1; ex.setdefault("fail",(hard,softs,inline)); continue
        except Exception as e: bad["exc:"+type(e).__name__]+=1; ex.setdefault("exc:"+type(e).__name__,(hard,softs,inline,str(e)[:80])); continue
        N+=1
        x=o.x
        sat=[i for i,s in enumerate(allsofts) if x in s]
        if x not in hard: bad["hard-violated"]+=1
        elif x not in cur:
            bad["not-greedy"]+=1; ex.setdefault("not-greedy",(hard,softs,inline,"x",x,"kept",kept,"sat",sat))
print("calls",N,dict(bad))
for k,v in ex.items(): print("  ",k,v)
