CONSTANT W = 32
CONSTANT N = 2000
INIT Init
NEXT Next
CHECK_DEADLOCK FALSE
