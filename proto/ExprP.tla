------------------------------- MODULE ExprP -------------------------------
EXTENDS BV, TLC, Integers, Json, IOUtils
VARIABLE i, bad
Data == JsonDeserialize(IOEnv.TRACE_FILE)
Prog == Data.prog
Events == Data.events

MaxN(a, b) == IF a > b THEN a ELSE b
IsRel(op) == op \in {"eq","ne","lt","le","gt","ge"}

RECURSIVE WidthOf(_), SignedOf(_)
WidthOf(e) ==
  CASE e.k = "field" -> Prog.fields[e.name].w
    [] e.k = "lit" -> e.w
    [] e.k = "bin" -> IF IsRel(e.op) THEN 1 ELSE MaxN(WidthOf(e.l), WidthOf(e.r))
SignedOf(e) ==
  CASE e.k = "field" -> Prog.fields[e.name].s
    [] e.k = "lit" -> e.s
    [] e.k = "bin" -> SignedOf(e.l) /\ SignedOf(e.r)

Bool(b) == IF b THEN <<1>> ELSE <<0>>
RECURSIVE Eval(_, _, _)
\* value of e in environment env, evaluated in context width cw
Eval(e, env, cw) ==
  CASE e.k = "field" -> env[e.name]
    [] e.k = "lit" -> Ext(e.bits, MaxN(cw, e.w), TRUE)   \* literal constant built at ctx width from (possibly negative) python int
    [] e.k = "bin" ->
         LET w == MaxN(cw, MaxN(WidthOf(e.l), WidthOf(e.r)))
             sg == SignedOf(e.l) /\ SignedOf(e.r)
             a == Ext(Eval(e.l, env, w), w, sg)
             b == Ext(Eval(e.r, env, w), w, sg)
         IN CASE e.op = "eq" -> Bool(a = b)
              [] e.op = "ne" -> Bool(a # b)
              [] e.op = "lt" -> Bool(IF sg THEN Slt(a, b) ELSE Ult(a, b))
              [] e.op = "le" -> Bool(IF sg THEN Sle(a, b) ELSE Ule(a, b))
              [] e.op = "gt" -> Bool(IF sg THEN Slt(b, a) ELSE Ult(b, a))
              [] e.op = "ge" -> Bool(IF sg THEN Sle(b, a) ELSE Ule(b, a))
              [] e.op = "add" -> Add(a, b)
              [] e.op = "sub" -> Sub(a, b)
              [] e.op = "mul" -> Mul(a, b)
              [] e.op = "and" -> BAnd(a, b)
              [] e.op = "or" -> BOr(a, b)
              [] e.op = "xor" -> BXor(a, b)
Holds(c, env) == ~IsZero(Eval(c, env, 0))
AllHold(env) == \A k \in 1..Len(Prog.constraints) : Holds(Prog.constraints[k], env)

Init == i = 1 /\ bad = << >> /\ TLCSet(1, << >>)
Next == /\ i <= Len(Events)
        /\ LET ev == Events[i]
               ok == (ev.outcome = "ok") = AllHold(ev.env)
           IN /\ bad' = bad
              /\ (IF ok THEN TRUE ELSE TLCSet(1, Append(TLCGet(1), i)))
        /\ i' = i + 1
Accepted == /\ PrintT(<<"BAD", TLCGet(1)>>) /\ TLCGet(1) = << >>
=============================================================================
