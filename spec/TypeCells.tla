------------------------------ MODULE TypeCells ------------------------------
(***************************************************************************)
(* Requirement-level model of field storage (property C18): one cell per  *)
(* scalar field, one sequence of cells per scalar list.  A cell of width w *)
(* holds a w-bit vector; writing integer v (given as a two's complement   *)
(* vector at least w bits wide) stores v mod 2^w, and every read path      *)
(* returns the stored vector, re-interpreted by the cell's signedness (the *)
(* driver encodes what it read at width w when it lies inside the declared *)
(* type and wider otherwise, so "in type" is Len = w).                      *)
(*                                                                         *)
(* W.cells[p] = [w, s, enum: Seq(bits32)]   W.lists[p] = [w, s, init]       *)
(* S = [cells: p |-> bits, lists: p |-> Seq(bits)]                          *)
(***************************************************************************)
EXTENDS BV, Sequences, FiniteSets, TLC

Failed(c) == {n \in DOMAIN c : ~c[n]}

Wrap(v, w) == IF Len(v) >= w THEN SubSeq(v, 1, w) ELSE Sext(v, w)

EmptyState == [cells |-> << >>, lists |-> << >>]

IsEnumCell(W, p) == Len(W.cells[p].enum) > 0
EnumOK(W, p, v) == ~IsEnumCell(W, p) \/ \E i \in 1..Len(W.cells[p].enum) : W.cells[p].enum[i] = v

\* every read view of every cell and list equals the model state
ReadsAgree(W, S, ev) ==
  /\ DOMAIN ev.reads = DOMAIN S.cells
  /\ \A p \in DOMAIN S.cells : \A vw \in DOMAIN ev.reads[p] : ev.reads[p][vw] = S.cells[p]
  /\ DOMAIN ev.lreads = DOMAIN S.lists
  /\ \A p \in DOMAIN S.lists :
        /\ ev.lreads[p].len = Len(S.lists[p])
        /\ ev.lreads[p].size = Len(S.lists[p])
        /\ ev.lreads[p].index = S.lists[p]
        /\ ev.lreads[p].iter = S.lists[p]
InType(W, S) ==
  /\ \A p \in DOMAIN S.cells : Len(S.cells[p]) = W.cells[p].w /\ EnumOK(W, p, S.cells[p])
  /\ \A p \in DOMAIN S.lists : \A i \in 1..Len(S.lists[p]) : Len(S.lists[p][i]) = W.lists[p].w

(* ------------------------------- events -------------------------------- *)
InitEffect(W, S, ev) ==
  [cells |-> [p \in DOMAIN W.cells |-> Wrap(W.cells[p].init, W.cells[p].w)],
   lists |-> [p \in DOMAIN W.lists |-> [i \in 1..Len(W.lists[p].init) |-> Wrap(W.lists[p].init[i], W.lists[p].w)]]]

WriteEffect(W, S, ev) == [S EXCEPT !.cells[ev.p] = Wrap(ev.v, W.cells[ev.p].w)]

\* part-select write [hi:lo] := v : only bits lo..hi change, they receive the low bits of v
PartWriteEffect(W, S, ev) ==
  LET old == S.cells[ev.p]
      n   == ev.hi - ev.lo + 1
      vv  == Wrap(ev.v, n)
  IN [S EXCEPT !.cells[ev.p] = [i \in 1..Len(old) |-> IF i - 1 >= ev.lo /\ i - 1 <= ev.hi THEN vv[i - ev.lo] ELSE old[i]]]

ListNew(W, S, ev) ==
  LET w == W.lists[ev.p].w  cur == S.lists[ev.p]  ws == [i \in 1..Len(ev.vs) |-> Wrap(ev.vs[i], w)] IN
  CASE ev.op = "l_append"  -> cur \o ws
    [] ev.op = "l_extend"  -> cur \o ws
    [] ev.op = "l_assign"  -> ws
    [] ev.op = "l_clear"   -> << >>
    [] ev.op = "l_setitem" -> [cur EXCEPT ![ev.i + 1] = ws[1]]
ListEffect(W, S, ev) == [S EXCEPT !.lists[ev.p] = ListNew(W, S, ev)]

\* randomize(): random cells take whatever the library produced (read through the primary view: get_val for
\* scalars, indexing for lists) - every other view must then agree with it and it must be in type; non-random cells stay
RandEffect(W, S, ev) ==
  [cells |-> [p \in DOMAIN S.cells |-> IF W.cells[p].rand THEN ev.reads[p].get_val ELSE S.cells[p]],
   lists |-> [p \in DOMAIN S.lists |-> IF W.lists[p].rand THEN ev.lreads[p].index ELSE S.lists[p]]]

Effect(W, S, ev) ==
  CASE ev.op = "init"  -> InitEffect(W, S, ev)
    [] ev.op = "randomize" -> RandEffect(W, S, ev)
    [] ev.op = "write" -> WriteEffect(W, S, ev)
    [] ev.op = "part_write" -> PartWriteEffect(W, S, ev)
    [] ev.op \in {"l_append", "l_extend", "l_assign", "l_clear", "l_setitem"} -> ListEffect(W, S, ev)
    [] ev.op = "part_read" -> S

Guard(W, S, ev) ==
  CASE ev.op = "init"  -> S = EmptyState
    [] ev.op = "randomize" -> TRUE
    [] ev.op = "write" -> ev.p \in DOMAIN S.cells
    [] ev.op = "part_write" -> ev.p \in DOMAIN S.cells /\ 0 <= ev.lo /\ ev.lo <= ev.hi /\ ev.hi < W.cells[ev.p].w
    [] ev.op = "part_read"  -> ev.p \in DOMAIN S.cells /\ 0 <= ev.lo /\ ev.lo <= ev.hi /\ ev.hi < W.cells[ev.p].w
    [] ev.op = "l_setitem" -> ev.p \in DOMAIN S.lists /\ ev.i < Len(S.lists[ev.p])
    [] ev.op \in {"l_append", "l_extend", "l_assign", "l_clear"} -> ev.p \in DOMAIN S.lists
    [] OTHER -> FALSE

Clauses(W, S, ev) ==
  IF ~Guard(W, S, ev) THEN [ known_event |-> FALSE ]
  ELSE LET T == Effect(W, S, ev) IN
  [ no_exception    |-> ev.exc = "none",
    all_reads_agree |-> ReadsAgree(W, T, ev),                                   \* every access path, same value
    always_in_type  |-> InType(W, T),
    fixed_list_keeps_length |-> ev.op = "randomize" => \A p \in DOMAIN S.lists : Len(T.lists[p]) = Len(S.lists[p]),
    part_read_bits  |-> ev.op = "part_read" => ev.got = Slice(S.cells[ev.p], ev.hi, ev.lo) ]
=============================================================================
