"""C01 - returned values satisfy every active hard constraint and their declared type."""
from .. import engine, fam_expr, fam_list, fam_hist, fam_tree

LEVEL = "model_checking"


def scenarios(tier, seed):
    return fam_expr.family_E(tier, seed) + fam_expr.family_S(tier, seed) + fam_expr.family_Q(tier, seed) + fam_expr.family_Wd(tier, seed) + fam_expr.family_G(tier, seed) + fam_expr.family_K(tier, seed) + \
        [x for x in fam_list.family_fixed(tier, seed) if any(k in x["id"] for k in ("/expr_elem/", "/index/", "/fe_sorted/", "/fe_idx/", "/idx_merge/"))] + \
        fam_hist.family_H(tier, seed, n=8 if tier == "quick" else 120) + \
        fam_tree.family_T(tier, seed, n=6 if tier == "quick" else 80, probes=True, tag="T01") + fam_tree.family_nonrand_member(tier, seed)


def run(tier, seed, limit=0):
    chk = engine.Check("C01", tier, seed)
    scs = scenarios(tier, seed)
    if limit:
        scs = scs[:limit]
    chk.run_scenarios(scs, "Trace_VscRand")
    chk.run_mc("MC_VscRand", {"MaxLevel": 4 if tier == "quick" else 6}, workers=12, label="A-level API machine on world W-flags")
    return chk.finish(LEVEL, "family E/S/Q/Wd/G/K programs x exhaustive truth tables; relations between expressions and list elements (literal and foreach "
                      "indices, either operand order); histories with rangelist / list edits between calls and three-level object trees (the values returned by "
                      "LATER calls satisfy the constraints as they read then); non-trivial = accepted scenario with distinct event content",
                      ["TLC 1.8; BV/Expr reference semantics; world->DSL compiler"])
