#!/usr/bin/env python3
"""Regenerates the table of later-round seeded changes in DESIGN.md (between the seeded-table markers) from
seeded/*/meta.json (entries with "round" >= 2)."""
import glob
import json
import os
import re

ROOT = os.path.dirname(os.path.dirname(os.path.abspath(__file__)))
rows, n, first = [], 0, 0
for f in sorted(glob.glob(os.path.join(ROOT, "seeded", "*", "meta.json"))):
    m = json.load(open(f))
    if m.get("round", 1) < 2:
        continue
    name = os.path.basename(os.path.dirname(f))
    res = m.get("checks_run", "").replace("|", "/").replace("\n", " ")
    n += 1
    if "first run" in res and "missed" not in res.split("first run")[0] and not res.startswith("missed") and "ended with exit 2" not in res:
        first += 1
    rows.append("| %s (r%d) | %s | %s |" % (name, m["round"], m.get("needs_to_manifest", "").replace("|", "/").replace("\n", " "), res))
table = ["<!-- seeded-table-begin -->",
         "Later rounds (sub-agents asked for less obvious sites; %d kept changes, %d caught by the quick checks as they were when the change "
         "arrived, every other one after the named growth of a family, an instrument or the specification):" % (n, first), "",
         "| change | what it needs in order to manifest | result |", "|---|---|---|"] + rows + ["<!-- seeded-table-end -->"]
p = os.path.join(ROOT, "DESIGN.md")
s = open(p).read()
new = "\n".join(table)
if "<!-- seeded-table-begin -->" in s:
    s = re.sub(r"<!-- seeded-table-begin -->.*?<!-- seeded-table-end -->", lambda _: new, s, flags=re.S)
else:
    s = s.replace("What the misses taught (all now part of the families)", new + "\n\nWhat the misses taught (all now part of the families)", 1)
open(p, "w").write(s)
print("%d rows, %d caught at first run" % (n, first))
