------------------------------- MODULE B_Bins -------------------------------
(***************************************************************************)
(* Mechanism-level model of the range-list normalisation behind coverpoint  *)
(* bins (C10), transcribed from src/vsc/model/rangelist_model.py:           *)
(*   compact()   - sort by lower bound, merge overlapping ranges            *)
(*   intersect() - trim every range of `self` by every range of `other`     *)
(*                 (used to remove ignore / illegal values); when a range   *)
(*                 is removed the inner loop is left (fix 2026-10-01: the    *)
(*                 code went on with index -1 and raised IndexError once the *)
(*                 list was empty)                                           *)
(* Obligation B |= A (Cov.tla): compact preserves the value set and yields  *)
(* ascending pairwise-disjoint ranges; intersect yields exactly             *)
(* Values(self) \ Values(other).  One TLC state per instance.               *)
(***************************************************************************)
EXTENDS Integers, Sequences, FiniteSets, SequencesExt, TLC
CONSTANTS MaxV, MaxR
VARIABLES rl, ex
vars == <<rl, ex>>
Range2 == {<<a, b>> : a \in 0..MaxV, b \in 0..MaxV}
Ranges == {r \in Range2 : r[1] <= r[2]}
Vals(s) == UNION {s[i][1]..s[i][2] : i \in 1..Len(s)}

\* --- compact(): stable sort by lower bound, then the merge loop -----------
Sort(s) == LET ord == SetToSortSeq(1..Len(s), LAMBDA a, b : s[a][1] < s[b][1] \/ (s[a][1] = s[b][1] /\ a < b))
           IN [i \in 1..Len(s) |-> s[ord[i]]]
RECURSIVE Merge(_, _)
Merge(s, i) ==
  IF i >= Len(s) THEN s
  ELSE IF s[i + 1][1] <= s[i][2]
       THEN LET hi == IF s[i + 1][2] > s[i][2] THEN s[i + 1][2] ELSE s[i][2]
                t  == [k \in 1..(Len(s) - 1) |-> IF k < i THEN s[k] ELSE IF k = i THEN <<s[i][1], hi>> ELSE s[k + 1]]
            IN Merge(t, i)
       ELSE Merge(s, i + 1)
Compact(s) == IF Len(s) = 0 THEN s ELSE Merge(Sort(s), 1)

\* --- intersect(): while rng_i < len: for r in other: rng_i = _intersect(...); rng_i += 1 -------------
\* state of the loops: <<ranges, rng_i>> with rng_i 1-based here; _intersect may pop (index moves back) or split
TrimOne(st, t) ==
  LET s == st[1]  i == st[2] IN
  LET g == s[i] IN
  IF g[1] >= t[1] /\ g[2] <= t[2]
  THEN <<[k \in 1..(Len(s) - 1) |-> IF k < i THEN s[k] ELSE s[k + 1]], i - 1>>              \* entirely inside: pop
  ELSE IF t[1] > g[1] /\ t[2] < g[2]
  THEN <<[k \in 1..(Len(s) + 1) |-> IF k < i THEN s[k] ELSE IF k = i THEN <<g[1], t[1] - 1>>
                                     ELSE IF k = i + 1 THEN <<t[2] + 1, g[2]>> ELSE s[k - 1]], i>>  \* split
  ELSE IF t[1] > g[1] /\ t[1] <= g[2]
  THEN <<[s EXCEPT ![i] = <<g[1], t[1] - 1>>], i>>
  ELSE IF t[2] >= g[1] /\ t[2] < g[2]
  THEN <<[s EXCEPT ![i] = <<t[2] + 1, g[2]>>], i>>
  ELSE st
RECURSIVE Inner(_, _, _), Outer(_, _)
\* the inner loop leaves as soon as the range was removed (rng_i moved back)
Inner(st, other, j) == IF j > Len(other) THEN st
                       ELSE LET n == TrimOne(st, other[j]) IN IF n[2] < st[2] THEN n ELSE Inner(n, other, j + 1)
Outer(st, other) == IF st[2] > Len(st[1]) THEN st[1]
                    ELSE LET n == Inner(st, other, 1) IN Outer(<<n[1], n[2] + 1>>, other)
Intersect(s, other) == IF Len(s) = 0 \/ Len(other) = 0 THEN s ELSE Outer(<<s, 1>>, other)

Init == /\ rl \in UNION {[1..n -> Ranges] : n \in 1..MaxR}
        /\ ex \in UNION {[1..n -> Ranges] : n \in 0..2}
Next == UNCHANGED vars
Spec == Init /\ [][Next]_vars

CompactKeepsValues == Vals(Compact(rl)) = Vals(rl)
CompactNormalForm  == LET c == Compact(rl) IN \A i \in 1..(Len(c) - 1) : c[i][2] < c[i + 1][1]
\* the coverpoint compacts both lists before intersecting
IntersectExact     == Vals(Intersect(Compact(rl), Compact(ex))) = Vals(rl) \ Vals(ex)
=============================================================================
