"""Random-stability family (C09): histories with explicit seeds, snapshots and restores, each executed in several
environments."""
import random

from .worlds import F, B, E, lit, bits
from .fam_expr import fld, wcall, mcall
from .fam_dist import blk


def world_stab(rnd):
    fields = [fld("a", 8, False), fld("b", 8, False), fld("c", 4, rnd.random() < 0.5), fld("k", 4, False, rand=False, init=5),
              # fields whose first-reference order in the constraints is not the alphabetical order of their names
              fld("zeta", 6, False), fld("mid", 6, False), fld("alpha", 6, False),
              {"name": "l", "kind": "list", "w": 4, "signed": False, "rand": True, "init": [0, 0, 0], "cap": 4},
              # enum fields no constraint mentions (non-contiguous enumerators: a domain of several parts)
              {"name": "e", "kind": "enum", "values": [1, 4, 9, 10], "rand": True, "init": 1},
              {"name": "e2", "kind": "enum", "values": [0, 7], "rand": True, "init": 0}]
    blocks = [blk("c1", [E(B("lt", F("a"), F("b")))]),
              # fields that share the set of the ORDERED fields a, b without being named in any solve_order
              blk("c5", [E(B("ne", F("a"), F("zeta"))), E(B("ne", F("b"), F("mid")))]),
              blk("c0", [E(B("lt", F("zeta"), F("mid"))), E(B("lt", F("mid"), F("alpha")))]),
              blk("c2", [{"k": "dist", "e": F("c"), "ws": [{"it": {"k": "v", "e": lit(1)}, "w": lit(2)},
                                                          {"it": {"k": "r", "lo": lit(2), "hi": lit(5)}, "w": lit(3)}]}]),
              blk("c3", [{"k": "order", "a": ["a"], "b": ["b"]}, {"k": "soft", "e": B("eq", F("b"), lit(200))}]),
              blk("c4", [{"k": "foreach", "l": "l", "v": "i", "it": True, "idx": False,
                          "body": [E(B("ne", {"k": "it", "v": "i", "p": ""}, F("k")))]},
                         {"k": "uniq", "args": [{"k": "lst", "p": "l"}]}])]
    sub = {"base": "", "fields": [fld("x", 6, False)], "blocks": [blk("sc", [E(B("ne", F("x"), lit(0)))])]}
    top_fields = fields + [{"name": "s", "kind": "obj", "cls": "Sub", "rand": True}]
    return {"classes": {"Sub": sub, "A": {"base": "", "fields": top_fields, "blocks": blocks}},
            "population": [{"id": "o1", "cls": "A"}, {"id": "o2", "cls": "A"}]}


ENVS = [
    {"hashseed": 0, "noise": []},
    {"hashseed": 1, "noise": ["other", "gc"], "noise_seed": 7},
    {"hashseed": 12345, "noise": ["global", "hash", "other"], "noise_seed": 9, "debug": True},
    {"hashseed": 777, "noise": ["gc", "hash"], "solve_fail_debug": True, "srcinfo": True, "env_debug": True, "noise_seed": 3},
]


def family_stab(tier, seed, n=None):
    out = []
    n = n or (12 if tier == "quick" else 80)
    for t in range(n):
        core = t < n // 2
        rnd = random.Random((909 if core else 9100 + seed) * 100003 + t)
        world = world_stab(rnd)
        ops = [{"op": "construct", "o": "o1"}, {"op": "construct", "o": "o2"}]
        s1 = rnd.randrange(1000)
        ops.append({"op": "seed", "os": ["o1", "o2"] if rnd.random() < 0.5 else ["o1"], "s": s1,
                    **({"str": "abc"} if rnd.random() < 0.3 else {})})
        if len(ops[-1]["os"]) == 1:
            ops.append({"op": "seed", "os": ["o2"], "s": rnd.randrange(1000)})
        snaps = []
        inl = [[], [E(B("gt", F("a"), lit(10)))], [E(B("eq", F("c"), lit(1)))], [E(B("lt", F("b"), F("a")))]]   # last one: unsatisfiable
        for i in range(rnd.randint(6, 10) if tier == "quick" else rnd.randint(8, 16)):
            r = rnd.random()
            o = rnd.choice(["o1", "o1", "o2"])
            if r < 0.55:
                ops.append({"op": "call", "call": rnd.choice([mcall(o), mcall(o), wcall(rnd.choice(inl), o)])})
            elif r < 0.7:
                nm = "s%d" % len(snaps)
                snaps.append((nm, o))
                ops.append({"op": "snap", "o": o, "name": nm})
            elif r < 0.9 and snaps:
                nm, so = rnd.choice(snaps)
                # restore into the same object (replay) or into the other instance of the class (one state, many replays)
                ops.append({"op": "restore", "o": rnd.choice([so, so, "o1", "o2"]), "name": nm})
            else:
                ops.append({"op": "set", "p": o + ".k", "v": bits(rnd.randrange(16), 4)})
        envs = ENVS if tier == "thorough" else [ENVS[0], ENVS[2], rnd.choice([ENVS[1], ENVS[3]])]     # plain, debug, one more
        out.append({"id": "ST/%s/%d" % ("core" if core else "s%d" % seed, t), "world": world, "ops": ops, "envs": envs})
    # (a) replay across a FAILED call: snapshot, call, failing call, restore, the same call again - equal results
    # (b) module-level vsc.randomize(obj, randstate=RandState(seed)) interleaved with state-less use: it draws nothing from
    #     Python's global generator and the same seed gives the same result again
    for t in range(4 if tier == "quick" else 24):
        rnd = random.Random(939 + t + (0 if t < 2 else 100 * seed))
        world = world_stab(rnd)
        # a dynamic block with a dist of its own: referenced by some calls only
        world["classes"]["A"]["blocks"].append({"name": "dd", "dynamic": True, "body": [
            {"k": "dist", "e": F("mid"), "ws": [{"it": {"k": "v", "e": lit(3)}, "w": lit(1)}, {"it": {"k": "r", "lo": lit(10), "hi": lit(20)}, "w": F("k")}]}]})
        dyn = [E({"k": "dyn", "o": "", "b": "dd"})]
        unsat = [E(B("lt", F("b"), F("a")))]
        x1 = wcall(dyn if t % 2 == 0 else [], "o1")
        ops = [{"op": "construct", "o": "o1"}, {"op": "construct", "o": "o2"}, {"op": "seed", "os": ["o1"], "s": rnd.randrange(1000)},
               {"op": "seed", "os": ["o2"], "s": rnd.randrange(1000)},
               {"op": "call", "call": mcall("o1")}, {"op": "snap", "o": "o1", "name": "s0"},
               {"op": "call", "call": x1}, {"op": "call", "call": mcall("o1")},
               {"op": "call", "call": wcall(unsat + (dyn if t % 4 < 2 else []), "o1")},           # fails
               {"op": "restore", "o": "o1", "name": "s0"},
               {"op": "call", "call": x1}, {"op": "call", "call": mcall("o1")},                  # must replay
               {"op": "set", "p": "o1.k", "v": bits(9, 4)},
               {"op": "restore", "o": "o1", "name": "s0"}, {"op": "call", "call": x1}]            # a different non-random input: own key
        fs = rnd.randrange(1000)
        for k_ in range(3):
            ops.append({"op": "call", "call": {"kind": "free", "roots": ["o2"], "owner": "", "inline": [], "rs_seed": fs + (k_ % 2), "stream": "f%d" % k_}})
            ops.append({"op": "call", "call": mcall("o1")})
        envs = ENVS if tier == "thorough" else [ENVS[0], ENVS[2], ENVS[3]]
        out.append({"id": "ST/failreplay/%d" % t, "world": world, "ops": ops, "envs": envs})
    # default state: the sequence is fixed by Python's global seed (no global-random noise here)
    for t in range(2 if tier == "quick" else 10):
        rnd = random.Random(919 + t)
        world = world_stab(rnd)
        ops = [{"op": "construct", "o": "o1"}, {"op": "construct", "o": "o2"}, {"op": "seed_global", "s": 40 + t},
               # get_randstate() as the very first state-related call on a fresh object: still an independent snapshot
               {"op": "snap", "o": "o1", "name": "first"}, {"op": "default", "o": "o2"}]
        for i in range(4):
            ops.append({"op": "call", "call": mcall(rnd.choice(["o1", "o1", "o2"]))})
        ops.append({"op": "restore", "o": "o1", "name": "first"})
        for i in range(3):
            ops.append({"op": "call", "call": mcall("o1")})
        envs = [{"hashseed": 0, "noise": []}, {"hashseed": 5, "noise": ["other", "gc", "hash"], "noise_seed": 2, "debug": True},
                {"hashseed": 99, "noise": ["gc"], "srcinfo": True, "solve_fail_debug": True}]
        out.append({"id": "ST/global/%d" % t, "world": world, "ops": ops, "envs": envs})
    return out
