------------------------------- MODULE Expr -------------------------------
(***************************************************************************)
(* Reference semantics of the pyvsc constraint language (DESIGN section 5)*)
(* over the JSON "world language" owned by /verif.  Nothing here is taken *)
(* from pyvsc's internal model: the driver compiles the same AST to user  *)
(* level DSL calls, this module gives the AST its meaning.                *)
(*                                                                         *)
(* An evaluation context C is a record                                     *)
(*   W     flattened world (scalars, lists, objs, classes)                 *)
(*   own   absolute path of the object owning the block ("" = free call)   *)
(*   env   absolute scalar path |-> bit-vector                             *)
(*   sz    absolute list path   |-> current size                           *)
(*   rl    absolute rangelist path |-> sequence of <<lo, hi>> bit-vectors   *)
(*   bind  foreach variable |-> [p: element path, n: index, l: list path]  *)
(*   dyn   set of <<object path, block name>> currently being expanded     *)
(* Three-valued: U (undefined, an open zone) propagates strictly.         *)
(***************************************************************************)
EXTENDS BV, TLC

MaxN(a, b) == IF a > b THEN a ELSE b
IsRel(op) == op \in {"eq", "ne", "lt", "le", "gt", "ge"}
Bool(b) == IF b THEN <<1>> ELSE <<0>>

AbsP(own, rel) == IF own = "" THEN rel ELSE IF rel = "" THEN own ELSE own \o "." \o rel
ElemPath(l, i) == l \o "[" \o ToString(i) \o "]"
Has(f, k) == k \in DOMAIN f

(* ------------------------------ typing -------------------------------- *)
\* type of an absolute scalar path: a registered scalar, or an element of a scalar list
ListOfElem(W, p) == CHOOSE l \in DOMAIN W.lists : \E i \in 0..W.lists[l].cap : ElemPath(l, i) = p
IsElem(W, p) == \E l \in DOMAIN W.lists : \E i \in 0..W.lists[l].cap : ElemPath(l, i) = p
TypeOfPath(W, p) == IF p \in DOMAIN W.scalars THEN [w |-> W.scalars[p].w, s |-> W.scalars[p].s]
                    ELSE LET l == ListOfElem(W, p) IN [w |-> W.lists[l].w, s |-> W.lists[l].s]

\* type of a reference through a foreach variable / subscript
ElemRefType(W, l, sub) ==
  IF sub = "" THEN [w |-> W.lists[l].w, s |-> W.lists[l].s]
  ELSE LET cf == W.classes[W.lists[l].cls].ftypes[sub] IN [w |-> cf.w, s |-> cf.s]

RECURSIVE WidthOf(_, _), SignedOf(_, _)
WidthOf(C, e) ==
  CASE e.k = "f"    -> TypeOfPath(C.W, AbsP(C.own, e.p)).w
    [] e.k = "it"   -> ElemRefType(C.W, C.bind[e.v].l, e.p).w
    [] e.k = "ix"   -> 32
    [] e.k = "sub"  -> ElemRefType(C.W, AbsP(C.own, e.l), e.p).w
    [] e.k = "lit"  -> e.w
    [] e.k = "bin"  -> IF IsRel(e.op) THEN 1 ELSE MaxN(WidthOf(C, e.l), WidthOf(C, e.r))
    [] e.k = "not"  -> WidthOf(C, e.e)
    [] e.k = "part" -> e.hi - e.lo + 1
    [] e.k = "in"   -> 1
    [] e.k = "dyn"  -> 1
    [] e.k = "dyni" -> 1
    [] e.k = "size" -> 32
    [] e.k = "sum"  -> C.W.lists[AbsP(C.own, e.l)].w + 8
    [] e.k = "prod" -> 64
SignedOf(C, e) ==
  CASE e.k = "f"    -> TypeOfPath(C.W, AbsP(C.own, e.p)).s
    [] e.k = "it"   -> ElemRefType(C.W, C.bind[e.v].l, e.p).s
    [] e.k = "ix"   -> TRUE      \* a foreach index is an 'int' (signed 32 bit), as in SystemVerilog
    [] e.k = "sub"  -> ElemRefType(C.W, AbsP(C.own, e.l), e.p).s
    [] e.k = "lit"  -> e.s
    [] e.k = "bin"  -> SignedOf(C, e.l) /\ SignedOf(C, e.r)
    [] e.k = "not"  -> SignedOf(C, e.e)
    [] e.k = "part" -> FALSE
    [] e.k = "in"   -> FALSE
    [] e.k = "dyn"  -> FALSE
    [] e.k = "dyni" -> FALSE
    [] e.k = "size" -> FALSE
    [] e.k = "sum"  -> C.W.lists[AbsP(C.own, e.l)].s
    [] e.k = "prod" -> C.W.lists[AbsP(C.own, e.l)].s

(* ---------------------------- three-valued ---------------------------- *)
And3(a, b) == IF a = "U" \/ b = "U" THEN "U" ELSE IF a = "T" /\ b = "T" THEN "T" ELSE "F"
Or3(a, b)  == IF a = "U" \/ b = "U" THEN "U" ELSE IF a = "T" \/ b = "T" THEN "T" ELSE "F"
Not3(a)    == IF a = "U" THEN "U" ELSE IF a = "T" THEN "F" ELSE "T"
Tv(b)      == IF b THEN "T" ELSE "F"
\* all of a set of verdicts
All3(S) == IF "U" \in S THEN "U" ELSE IF "F" \in S THEN "F" ELSE "T"
Any3(S) == IF "U" \in S THEN "U" ELSE IF "T" \in S THEN "T" ELSE "F"
TruthOf(v) == IF IsU(v) THEN "U" ELSE Tv(~IsZero(v))
BvOf(t) == IF t = "U" THEN U ELSE Bool(t = "T")

(* ----------------------------- expressions ---------------------------- *)
BinOp(op, a, b, sg) ==
  CASE op = "eq"  -> Bool(a = b)
    [] op = "ne"  -> Bool(a # b)
    [] op = "lt"  -> Bool(IF sg THEN Slt(a, b) ELSE Ult(a, b))
    [] op = "le"  -> Bool(IF sg THEN Sle(a, b) ELSE Ule(a, b))
    [] op = "gt"  -> Bool(IF sg THEN Slt(b, a) ELSE Ult(b, a))
    [] op = "ge"  -> Bool(IF sg THEN Sle(b, a) ELSE Ule(b, a))
    [] op = "add" -> Add(a, b)
    [] op = "sub" -> Sub(a, b)
    [] op = "mul" -> Mul(a, b)
    [] op = "div" -> IF IsZero(b) THEN U ELSE IF sg THEN Sdiv(a, b) ELSE Udiv(a, b)
    [] op = "mod" -> IF IsZero(b) THEN U ELSE IF sg THEN Srem(a, b) ELSE Urem(a, b)
    [] op = "and" -> BAnd(a, b)
    [] op = "or"  -> BOr(a, b)
    [] op = "xor" -> BXor(a, b)
    [] op = "sll" -> ShlV(a, b)
    [] op = "srl" -> LshrV(a, b)

RECURSIVE FindBlock(_, _, _)
FindBlock(W, cls, b) ==
  LET c == W.classes[cls]
      here == {i \in 1..Len(c.blocks) : c.blocks[i].name = b}
  IN IF here # {} THEN c.blocks[CHOOSE i \in here : TRUE]
     ELSE FindBlock(W, c.base, b)

\* value of an absolute scalar path, U when it does not exist (e.g. index beyond the list)
Val(C, p) == IF p \in DOMAIN C.env THEN C.env[p] ELSE U

RECURSIVE Eval(_, _, _), HoldsBlock(_, _, _), Holds3(_, _), HoldsAll(_, _), SumRec(_, _, _, _, _), ProdRec(_, _, _, _),
          ItemsHold(_, _, _, _), EvalIn(_, _)

\* compare x against lo..hi (closed) in the common type of the three
InRange(C, xe, loe, hie) ==
  And3(TruthOf(Eval(C, [k |-> "bin", op |-> "ge", l |-> xe, r |-> loe], 0)),
       TruthOf(Eval(C, [k |-> "bin", op |-> "le", l |-> xe, r |-> hie], 0)))

\* membership of expression e.e in the item list, item by item
ItemsHold(C, xe, items, i) ==
  IF i > Len(items) THEN "F"
  ELSE LET it == items[i]
           here ==
             CASE it.k = "v"  -> TruthOf(Eval(C, [k |-> "bin", op |-> "eq", l |-> xe, r |-> it.e], 0))
               [] it.k = "r"  -> InRange(C, xe, it.lo, it.hi)
               [] it.k = "rl" -> \* mutable rangelist: closed ranges of 32-bit signed literals
                    LET rs == C.rl[AbsP(C.own, it.p)] IN
                    IF Len(rs) = 0 THEN "U"
                    ELSE Any3({InRange(C, xe, [k |-> "lit", w |-> 32, s |-> TRUE, bits |-> rs[j][1]],
                                              [k |-> "lit", w |-> 32, s |-> TRUE, bits |-> rs[j][2]])
                               : j \in 1..Len(rs)})
               [] it.k = "l"  -> \* membership in a list: equal to some exposed element
                    LET lp == AbsP(C.own, it.p)  n == C.sz[lp] IN
                    IF n = 0 THEN "F"
                    ELSE Any3({TruthOf(Eval(C, [k |-> "bin", op |-> "eq", l |-> xe,
                                                 r |-> [k |-> "sub", l |-> it.p, p |-> "",
                                                        i |-> [k |-> "lit", w |-> 32, s |-> TRUE, bits |-> NatBits(j, 32)]]], 0))
                               : j \in 0..(n - 1)})
       IN Or3(here, ItemsHold(C, xe, items, i + 1))
EvalIn(C, e) == LET r == ItemsHold(C, e.e, e.items, 1) IN IF e.neg THEN Not3(r) ELSE r

\* mathematical sum of the exposed elements at width w (w chosen by the front end so as not to overflow)
SumRec(C, lp, i, w, acc) ==
  IF i >= C.sz[lp] THEN acc
  ELSE LET v == Val(C, ElemPath(lp, i)) IN
       IF IsU(v) THEN U ELSE SumRec(C, lp, i + 1, w, Add(acc, Ext(v, w, C.W.lists[lp].s)))

\* mathematical product of the exposed elements, computed at a working width ww that cannot overflow (see Eval)
ProdRec(C, lp, i, acc) ==
  IF i >= C.sz[lp] THEN acc
  ELSE LET v == Val(C, ElemPath(lp, i)) IN
       IF IsU(v) THEN U ELSE ProdRec(C, lp, i + 1, Mul(acc, Ext(v, Len(acc), C.W.lists[lp].s)))

Eval(C, e, cw) ==
  CASE e.k = "f"   -> Val(C, AbsP(C.own, e.p))
    [] e.k = "it"  -> Val(C, IF e.p = "" THEN C.bind[e.v].p ELSE C.bind[e.v].p \o "." \o e.p)
    [] e.k = "ix"  -> NatBits(C.bind[e.v].n, 32)
    [] e.k = "sub" ->
         LET iv == Eval(C, e.i, 0) IN
         IF IsU(iv) THEN U
         ELSE LET lp == AbsP(C.own, e.l) IN
              IF \E j \in 8..Len(iv) : iv[j] = 1 THEN U          \* index far beyond any list here
              ELSE LET n == ToNat(SubSeq(iv, 1, IF Len(iv) < 7 THEN Len(iv) ELSE 7)) IN
                   IF n >= C.sz[lp] THEN U
                   ELSE Val(C, IF e.p = "" THEN ElemPath(lp, n) ELSE ElemPath(lp, n) \o "." \o e.p)
    [] e.k = "lit" -> Ext(e.bits, MaxN(cw, e.w), e.s)
    [] e.k = "not" ->
         LET v == Eval(C, e.e, cw) IN IF IsU(v) THEN U ELSE BNot(v)
    [] e.k = "part" ->
         LET v == Eval(C, e.e, 0) IN IF IsU(v) THEN U ELSE Slice(v, e.hi, e.lo)
    [] e.k = "in"  -> BvOf(EvalIn(C, e))
    [] e.k = "dyn" -> BvOf(HoldsBlock(C, AbsP(C.own, e.o), e.b))
    \* the dynamic block b of the element of object list e.l that the index expression selects (ol[i].b() inside a foreach)
    [] e.k = "dyni" -> LET iv == Eval(C, e.i, 0) IN
                       IF IsU(iv) THEN U ELSE BvOf(HoldsBlock(C, ElemPath(AbsP(C.own, e.l), ToNat(iv)), e.b))
    [] e.k = "size" -> NatBits(C.sz[AbsP(C.own, e.l)], 32)
    [] e.k = "sum" -> LET w == MaxN(cw, C.W.lists[AbsP(C.own, e.l)].w + 8) IN
                      SumRec(C, AbsP(C.own, e.l), 0, w, Zero(w))
    [] e.k = "prod" ->
         \* the library multiplies at 64 bits; the product of n elements of width ew fits n * ew bits, so it is computed
         \* exactly at that width and extended.  The product of an EMPTY list is left undefined (the library says 0).
         LET lp == AbsP(C.own, e.l)
             ww == C.sz[lp] * C.W.lists[lp].w + 1
             p  == ProdRec(C, lp, 0, NatBits(1, ww))
         IN IF C.sz[lp] = 0 \/ ww > 24 \/ IsU(p) THEN U ELSE Ext(p, MaxN(cw, 64), C.W.lists[lp].s)
    [] e.k = "bin" ->
         LET w  == MaxN(cw, MaxN(WidthOf(C, e.l), WidthOf(C, e.r)))
             sg == SignedOf(C, e.l) /\ SignedOf(C, e.r)
             a0 == Eval(C, e.l, w)
             b0 == Eval(C, e.r, w)
         IN IF IsU(a0) \/ IsU(b0) THEN U
            \* how wide l.sum is is the library's choice (it follows the length of the list): arithmetic directly on a sum is
            \* specified only where a 32-bit operand or context makes that width irrelevant - elsewhere an open zone
            ELSE IF ~IsRel(e.op) /\ (e.l.k = "sum" \/ e.r.k = "sum") /\ w < 32 THEN U
            ELSE BinOp(e.op, Ext(a0, w, sg), Ext(b0, w, sg), sg)

(* ----------------------------- statements ----------------------------- *)
\* the statements of (most-derived) block b of the object at absolute path o, owned by o
HoldsBlock(C, o, b) ==
  LET blk == FindBlock(C.W, C.W.objs[o].cls, b) IN
  HoldsAll([C EXCEPT !.own = o, !.bind = << >>], blk.body)

RECURSIVE IfArms(_, _, _, _), PairsDistinct(_, _, _, _)
IfArms(C, arms, els, i) ==
  IF i > Len(arms) THEN HoldsAll(C, els)
  ELSE LET c == TruthOf(Eval(C, arms[i].c, 0)) IN
       IF c = "U" THEN "U"
       ELSE IF c = "T" THEN HoldsAll(C, arms[i].body)
       ELSE IfArms(C, arms, els, i + 1)

\* unique over a list of expressions: pairwise "ne" in the pair's common type
PairsDistinct(C, es, i, j) ==
  IF i > Len(es) THEN "T"
  ELSE IF j > Len(es) THEN PairsDistinct(C, es, i + 1, i + 2)
  ELSE And3(TruthOf(Eval(C, [k |-> "bin", op |-> "ne", l |-> es[i], r |-> es[j]], 0)),
            PairsDistinct(C, es, i, j + 1))

\* expand the arguments of unique: expressions stay, list paths become their exposed elements
RECURSIVE UniqArgs(_, _, _)
UniqArgs(C, args, i) ==
  IF i > Len(args) THEN << >>
  ELSE LET a == args[i] IN
       (IF a.k = "lst"
        THEN [j \in 1..C.sz[AbsP(C.own, a.p)] |->
                [k |-> "sub", l |-> a.p, p |-> "",
                 i |-> [k |-> "lit", w |-> 32, s |-> TRUE, bits |-> NatBits(j - 1, 32)]]]
        ELSE <<a>>) \o UniqArgs(C, args, i + 1)

Holds3(C, st) ==
  CASE st.k = "e"    -> TruthOf(Eval(C, st.e, 0))
    [] st.k = "if"   -> IfArms(C, st.arms, st.els, 1)
    [] st.k = "imp"  -> LET c == TruthOf(Eval(C, st.c, 0)) IN
                        IF c = "U" THEN "U" ELSE IF c = "F" THEN "T" ELSE HoldsAll(C, st.body)
    [] st.k = "uniq" -> PairsDistinct(C, UniqArgs(C, st.args, 1), 1, 2)
    [] st.k = "uniqv" ->
         \* unique_vec: the lists, read as vectors of their exposed elements, are pairwise different - two vectors differ
         \* when they differ at some position.  Vectors of different length are a user error, and whether two EMPTY vectors
         \* differ is not stated: both are left undefined.
         LET n == C.sz[AbsP(C.own, st.ls[1])]
             el(a, j) == [k |-> "sub", l |-> st.ls[a], p |-> "", i |-> [k |-> "lit", w |-> 32, s |-> TRUE, bits |-> NatBits(j, 32)]]
             differ(a, b) == Any3({TruthOf(Eval(C, [k |-> "bin", op |-> "ne", l |-> el(a, j), r |-> el(b, j)], 0)) : j \in 0..(n - 1)})
         IN IF n = 0 \/ \E a \in 1..Len(st.ls) : C.sz[AbsP(C.own, st.ls[a])] # n THEN "U"
            ELSE All3({differ(ab[1], ab[2]) : ab \in {x \in (1..Len(st.ls)) \X (1..Len(st.ls)) : x[1] < x[2]}})
    [] st.k = "foreach" ->
         \* the list is named from the owner, or (nested foreach) below the element bound by an enclosing foreach
         LET lp == IF st.of = "" THEN AbsP(C.own, st.l) ELSE C.bind[st.of].p \o "." \o st.l
             n == C.sz[lp] IN
         All3({HoldsAll([C EXCEPT !.bind = (st.v :> [p |-> ElemPath(lp, j), n |-> j, l |-> lp]) @@ C.bind],
                        st.body) : j \in 0..(n - 1)})
    [] st.k = "soft"  -> "T"     \* no hard meaning (see Soft.tla)
    [] st.k = "order" -> "T"     \* solve_order has no effect on the solution set
    [] st.k = "dist"  -> \* hard part of dist: value lies in an entry whose weight is non-zero
         LET ents == {i \in 1..Len(st.ws) : TruthOf(Eval(C, st.ws[i].w, 0)) # "F"} IN
         IF \E i \in 1..Len(st.ws) : TruthOf(Eval(C, st.ws[i].w, 0)) = "U" THEN "U"
         ELSE Any3({ItemsHold(C, st.e, <<st.ws[i].it>>, 1) : i \in ents} \cup {"F"})

HoldsAll(C, sts) == All3({Holds3(C, sts[i]) : i \in 1..Len(sts)})

(* ---------------------- collecting soft statements -------------------- *)
\* soft constraints with their guards, in statement order: sequence of [g: seq of <<cond, polarity>>, e]
RECURSIVE SoftsOf(_, _), SoftsOfArms(_, _, _, _)
SoftsOfArms(arms, els, i, g) ==
  IF i > Len(arms) THEN [x \in 1..Len(SoftsOf(els, << >>)) |->
                            [g |-> g \o SoftsOf(els, << >>)[x].g, e |-> SoftsOf(els, << >>)[x].e]]
  ELSE LET inner == SoftsOf(arms[i].body, << >>) IN
       [x \in 1..Len(inner) |-> [g |-> g \o <<[c |-> arms[i].c, pol |-> TRUE]>> \o inner[x].g, e |-> inner[x].e]]
       \o SoftsOfArms(arms, els, i + 1, Append(g, [c |-> arms[i].c, pol |-> FALSE]))
SoftsOf(sts, g0) ==
  IF Len(sts) = 0 THEN << >>
  ELSE LET st == Head(sts)
           here == CASE st.k = "soft" -> <<[g |-> << >>, e |-> st.e]>>
                     [] st.k = "if"   -> SoftsOfArms(st.arms, st.els, 1, << >>)
                     [] st.k = "imp"  -> LET inner == SoftsOf(st.body, << >>) IN
                                         [x \in 1..Len(inner) |->
                                            [g |-> <<[c |-> st.c, pol |-> TRUE]>> \o inner[x].g, e |-> inner[x].e]]
                     [] OTHER -> << >>
       IN here \o SoftsOf(Tail(sts), g0)

\* a guarded soft holds iff (all guards true) => e
SoftHolds(C, sf) ==
  LET gs == {LET t == TruthOf(Eval(C, sf.g[i].c, 0)) IN IF sf.g[i].pol THEN t ELSE Not3(t) : i \in 1..Len(sf.g)}
      g == All3(gs)
  IN IF g = "U" THEN "U" ELSE IF g = "F" THEN "T" ELSE TruthOf(Eval(C, sf.e, 0))
=============================================================================
