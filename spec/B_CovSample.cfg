CONSTANT MaxInst = 1
CONSTANT MaxHits = 2
CONSTANT AtL = 1
CONSTANT W1 = 2
CONSTANT W2 = 1
CONSTANT InvalidateOnCover = TRUE
SPECIFICATION BSpec
CONSTRAINT Bound
INVARIANT CountersRefine
INVARIANT UnhitExact
INVARIANT QueryExact
INVARIANT CachesClear
CHECK_DEADLOCK FALSE
