----------------------------- MODULE MC_VscCov ------------------------------
(***************************************************************************)
(* Model checking of the requirement-level coverage machine VscCov on a    *)
(* small fixed world: the claims of C10-C12 that quantify over EVERY       *)
(* sequence of samples are decided here on the very operators (Effect0,    *)
(* GroupCov, AllCovered, TypeData) that judge the recorded traces.         *)
(*                                                                         *)
(* World: two shapes of one covergroup class.                              *)
(*   A : variable a (2 bit), gate g (1 bit);                               *)
(*       cp1 = bins {lo: [0..1] as array of 2, hi: [2..3]} ignore {3},      *)
(*             iff g, at_least AtL, weight W1;                              *)
(*       cp2 = auto bins (auto_bin_max 2), weight W2;   x = cp1 x cp2      *)
(*   B : the same class built with a different parameter - cp1 has ONE bin *)
(*       over [0..2] - a different structure, hence a separate type.       *)
(* Instances: at most MaxInst, created at any time; any value may be       *)
(* sampled on any instance; hit counts are capped by the state constraint. *)
(***************************************************************************)
EXTENDS VscCov, TLC
CONSTANTS MaxInst, MaxHits, AtL, W1, W2
VARIABLES S
vars == <<S>>

Cp1A == [name |-> "cp1", var |-> "a", iff |-> "g", lo |-> 0, hi |-> 3, kind |-> "explicit",
         bins |-> << [name |-> "lo", kind |-> "array", n |-> 2, ranges |-> << <<0, 1>> >>, pats |-> << >>],
                     [name |-> "hi", kind |-> "bin", n |-> 0, ranges |-> << <<2, 3>> >>, pats |-> << >>] >>,
         ign |-> << [name |-> "ig", ranges |-> << <<3, 3>> >>] >>, ill |-> << >>, abm |-> 64, enums |-> << >>,
         atl |-> AtL, wt |-> W1]
Cp1B == [Cp1A EXCEPT !.bins = << [name |-> "all", kind |-> "bin", n |-> 0, ranges |-> << <<0, 2>> >>, pats |-> << >>] >>]
Cp2  == [name |-> "cp2", var |-> "a", iff |-> "", lo |-> 0, hi |-> 3, kind |-> "auto", bins |-> << >>, ign |-> << >>,
         ill |-> << >>, abm |-> 2, enums |-> << >>, atl |-> 1, wt |-> W2]
X    == [name |-> "x", cps |-> <<"cp1", "cp2">>, iff |-> "", atl |-> 1, wt |-> 1]
W0 == [shapes |-> [A |-> [cls |-> "CG", cps |-> <<Cp1A, Cp2>>, xs |-> <<X>>],
                   B |-> [cls |-> "CG", cps |-> <<Cp1B, Cp2>>, xs |-> <<X>>]]]
W == Enrich(W0)

Values == [a : 0..3, g : 0..1]

New(sh)      == Len(S.insts) < MaxInst /\ S' = Effect0(W, S, [op |-> "new", shape |-> sh])
Sample(i, v) == i \in 1..Len(S.insts) /\ S' = Effect0(W, S, [op |-> "sample", inst |-> i, vals |-> v])

Init == S = EmptyState
Next == (\E sh \in {"A", "B"} : New(sh)) \/ (\E i \in 1..MaxInst : \E v \in Values : Sample(i, v))
Spec == Init /\ [][Next]_vars

AllHits(inst) == UNION {{inst.h[n][b] : b \in 1..Len(inst.h[n])} : n \in DOMAIN inst.h}
                 \cup UNION {{inst.x[n][b] : b \in 1..Len(inst.x[n])} : n \in DOMAIN inst.x}
                 \cup UNION {{inst.ig[n][b] : b \in 1..Len(inst.ig[n])} : n \in DOMAIN inst.ig}
Bound == \A i \in 1..Len(S.insts) : \A h \in AllHits(S.insts[i]) : h <= MaxHits

SumOf(seq) == LET RECURSIVE Sm(_) Sm(k) == IF k > Len(seq) THEN 0 ELSE seq[k] + Sm(k + 1) IN Sm(1)
ShapeOf(T, i) == W.shapes[T.insts[i].shape]
InstCov(T, i) == GroupCov(ShapeOf(T, i), T.insts[i])
TypeCov(T, i) == GroupCov(ShapeOf(T, i), TypeData(W, T, Members(W, T, i)))

(* --- C12: coverage is within 0..100 for every instance and every type *)
CovInRange == \A i \in 1..Len(S.insts) : /\ 0 <= InstCov(S, i) /\ InstCov(S, i) <= Full
                                          /\ 0 <= TypeCov(S, i) /\ TypeCov(S, i) <= Full
(* --- C12: 100 exactly when every bin (of an item that carries weight) reached its threshold *)
FullIffAllCovered ==
  \A i \in 1..Len(S.insts) :
     /\ (InstCov(S, i) = Full) = AllCovered(ShapeOf(S, i), S.insts[i])
     /\ (TypeCov(S, i) = Full) = AllCovered(ShapeOf(S, i), TypeData(W, S, Members(W, S, i)))
(* --- C12: type data is the bin-wise sum of its instances, so a type is at least as covered as each member;
       instances of a different structure form a separate type *)
TypeDominates == \A i \in 1..Len(S.insts) : TypeCov(S, i) >= InstCov(S, i)
TypesSeparate == \A i, j \in 1..Len(S.insts) :
                    (S.insts[i].shape # S.insts[j].shape) => j \notin Members(W, S, i)
(* --- C10: the value 3 is named by cp1's ignore bin: it is removed from the bin "hi" ([2..3] becomes {2}); every
       sample counted by a regular bin of cp1 is therefore a sample of 0, 1 or 2 taken while the gate was on, and the
       ignore bin itself only counts gated samples: both totals are bounded by cp2's total (cp2 has no gate and no
       exclusion, it counts every sample of the instance) *)
IgnoredNeverCounts ==
  \A i \in 1..Len(S.insts) :
     SumOf(S.insts[i].h["cp1"]) + SumOf(S.insts[i].ig["cp1"]) <= SumOf(S.insts[i].h["cp2"])
(* --- C11: a cross bin is incremented only together with one bin of each crossed coverpoint: the cross total never
       exceeds the total of either coverpoint *)
CrossBounded == \A i \in 1..Len(S.insts) :
                   /\ SumOf(S.insts[i].x["x"]) <= SumOf(S.insts[i].h["cp1"])
                   /\ SumOf(S.insts[i].x["x"]) <= SumOf(S.insts[i].h["cp2"])
(* --- C12 (action): coverage never decreases as samples arrive, a sample changes only its own instance, and a new
       instance starts empty without touching the others *)
Monotone == [][\A i \in 1..Len(S.insts) : /\ InstCov(S', i) >= InstCov(S, i)
                                          /\ (Len(S'.insts) = Len(S.insts) => TypeCov(S', i) >= TypeCov(S, i))]_vars
OnlyOwnInstance == [][\A i \in 1..Len(S.insts) :
                        (S'.insts[i] # S.insts[i]) => \A j \in 1..Len(S.insts) : j # i => S'.insts[j] = S.insts[j]]_vars
(* --- C10/C11 (action): one sample adds at most one hit to each coverpoint's disjoint bins and at most one cross hit,
       and none at all to cp1 / the cross when the gate is off *)
OneHitPerSample ==
  [][\A i \in 1..Len(S.insts) : Len(S'.insts) = Len(S.insts) =>
        /\ SumOf(S'.insts[i].h["cp1"]) - SumOf(S.insts[i].h["cp1"]) \in {0, 1}
        /\ SumOf(S'.insts[i].h["cp2"]) - SumOf(S.insts[i].h["cp2"]) \in {0, 1}
        /\ SumOf(S'.insts[i].x["x"]) - SumOf(S.insts[i].x["x"]) \in {0, 1}
        /\ (SumOf(S'.insts[i].x["x"]) > SumOf(S.insts[i].x["x"])
              => SumOf(S'.insts[i].h["cp1"]) > SumOf(S.insts[i].h["cp1"]) /\ SumOf(S'.insts[i].h["cp2"]) > SumOf(S.insts[i].h["cp2"]))]_vars
=============================================================================
