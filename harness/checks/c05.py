"""C05 - soft constraints are never fatal, are honoured maximally, and later ones win."""
from .. import engine, fam_soft

LEVEL = "model_checking"


def has_soft_event(r):
    return True


def run(tier, seed, limit=0):
    chk = engine.Check("C05", tier, seed)
    scs = fam_soft.family_soft_abstract(tier, seed) + fam_soft.family_soft_struct(tier, seed) + fam_soft.family_soft_merge(tier, seed)
    if limit:
        scs = scs[:limit]
    chk.run_scenarios(scs, "Trace_VscRand")
    chk.run_mc("MC_VscRand", {"MaxLevel": 4 if tier == "quick" else 6}, workers=12, label="A-level API machine on world W-flags")
    chk.run_mc("B_Soft", {"NSoft": 3}, label="soft fallback loop |= greedy, maximal")
    return chk.finish(LEVEL, "abstract instances (hard subset x three soft subsets of a 2-bit field, class-level and inline) and structured "
                      "programs (conflicting pairs/triples, softs under if/else and implies, jointly conflicting softs, two blocks); for "
                      "every call TLC enumerates Sol(hard) and checks maximality and the existence of a priority-respecting greedy order",
                      ["TLC 1.8; BV/Expr reference semantics; SoftAccept in VscRand.tla"])
