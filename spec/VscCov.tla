------------------------------- MODULE VscCov -------------------------------
(***************************************************************************)
(* Requirement-level state machine of functional coverage (C10-C13, C19). *)
(* W.shapes[name] = shape (see Cov.tla).                                   *)
(* S.insts = Seq([shape, h, ig, il : cp name |-> Seq(Nat), x : cross name |-> Seq(Nat)]) *)
(* S.cov   = last coverage figures observed (for monotonicity)              *)
(* Type-level data is *defined* as the bin-wise sum over the instances of  *)
(* the same class and structure, so every observation of a type is checked *)
(* against that sum.                                                        *)
(***************************************************************************)
EXTENDS Cov

Failed(c) == {n \in DOMAIN c : ~c[n]}
EmptyState == [insts |-> << >>, cov |-> << >>]

\* The flat bins of every coverpoint are computed once per world (Enrich) and carried in the field
\* `bc` of each shape: bc[cp name] = Bins(cp).  CB reads that cache.
Enrich(W) == [shapes |-> [n \in DOMAIN W.shapes |->
                 [cls |-> W.shapes[n].cls, cps |-> W.shapes[n].cps, xs |-> W.shapes[n].xs,
                  bc |-> [c \in {W.shapes[n].cps[i].name : i \in 1..Len(W.shapes[n].cps)} |-> Bins(CpByName(W.shapes[n], c))]]]]
CB(sh, c) == sh.bc[c]
NCrossC(sh, x) == LET RECURSIVE P(_)
                      P(i) == IF i > Len(x.cps) THEN 1 ELSE Len(CB(sh, x.cps[i])) * P(i + 1)
                  IN P(1)
RECURSIVE RowMajorC(_, _, _, _, _)
RowMajorC(sh, names, idx, i, acc) ==
  IF i > Len(names) THEN acc + 1
  ELSE RowMajorC(sh, names, idx, i + 1, acc * Len(CB(sh, names[i])) + (idx[i] - 1))
StructureC(sh) ==
  [cls |-> sh.cls,
   cps |-> [i \in 1..Len(sh.cps) |-> <<sh.cps[i].name, CB(sh, sh.cps[i].name), IgnBins(sh.cps[i]), IllBins(sh.cps[i])>>],
   xs  |-> [i \in 1..Len(sh.xs) |-> <<sh.xs[i].name, sh.xs[i].cps>>]]

ZeroSeq(n) == [i \in 1..n |-> 0]
\* (TLC needs the cross by name)
XByName(sh, n) == sh.xs[CHOOSE i \in 1..Len(sh.xs) : sh.xs[i].name = n]
MkInst(W, sname) ==
  LET sh == W.shapes[sname]
      cpn == {sh.cps[i].name : i \in 1..Len(sh.cps)}
      xn  == {sh.xs[i].name : i \in 1..Len(sh.xs)}
  IN [shape |-> sname,
      h  |-> [n \in cpn |-> ZeroSeq(Len(CB(sh, n)))],
      ig |-> [n \in cpn |-> ZeroSeq(Len(CpByName(sh, n).ign))],
      il |-> [n \in cpn |-> ZeroSeq(Len(CpByName(sh, n).ill))],
      x  |-> [n \in xn |-> ZeroSeq(NCrossC(sh, XByName(sh, n)))]]

\* iff gating: a variable name ("" = no iff); the sample carries every variable's value
IffOn(ev, name) == name = "" \/ ev.vals[name] # 0

Inc(seq, S) == [i \in 1..Len(seq) |-> seq[i] + (IF i \in S THEN 1 ELSE 0)]

\* effect of one sample on one instance record
SampleInst(W, inst, ev) ==
  LET sh == W.shapes[inst.shape]
      on(cp) == IffOn(ev, cp.iff)
      hitset(cp) == IF on(cp) THEN LET bs == CB(sh, cp.name) IN {b \in 1..Len(bs) : ev.vals[cp.var] \in bs[b]} ELSE {}
      igset(cp) == IF on(cp) THEN {b \in 1..Len(cp.ign) : ev.vals[cp.var] \in Vals(cp.ign[b].ranges)} ELSE {}
      ilset(cp) == IF on(cp) THEN {b \in 1..Len(cp.ill) : ev.vals[cp.var] \in Vals(cp.ill[b].ranges)} ELSE {}
      xhit(x) == IF IffOn(ev, x.iff) /\ \A i \in 1..Len(x.cps) : hitset(CpByName(sh, x.cps[i])) # {}
                 THEN {RowMajorC(sh, x.cps, [i \in 1..Len(x.cps) |-> Min(hitset(CpByName(sh, x.cps[i])))], 1, 0)}
                 ELSE {}
  IN [inst EXCEPT !.h  = [n \in DOMAIN inst.h |-> Inc(inst.h[n], hitset(CpByName(sh, n)))],
                  !.ig = [n \in DOMAIN inst.ig |-> Inc(inst.ig[n], igset(CpByName(sh, n)))],
                  !.il = [n \in DOMAIN inst.il |-> Inc(inst.il[n], ilset(CpByName(sh, n)))],
                  !.x  = [n \in DOMAIN inst.x |-> Inc(inst.x[n], xhit(XByName(sh, n)))]]

\* a sample is "clean" for crosses when no crossed coverpoint hits two bins at once (overlapping
\* explicit bins): the property does not say which combination counts then - open zone
CrossClean(W, inst, ev) ==
  LET sh == W.shapes[inst.shape] IN
  \A k \in 1..Len(sh.xs) : \A i \in 1..Len(sh.xs[k].cps) :
     LET cp == CpByName(sh, sh.xs[k].cps[i]) IN
     LET bs == CB(sh, cp.name) IN Cardinality({b \in 1..Len(bs) : ev.vals[cp.var] \in bs[b]}) <= 1

(* ------------------------------- types --------------------------------- *)
SameType(W, S, i, j) == S.insts[i].shape = S.insts[j].shape
                        \/ StructureC(W.shapes[S.insts[i].shape]) = StructureC(W.shapes[S.insts[j].shape])
Members(W, S, i) == {j \in 1..Len(S.insts) : SameType(W, S, i, j)}
SumSeq(seqs) == \* bin-wise sum of a non-empty set of equal-length sequences given as a function idx |-> seq
  LET I == DOMAIN seqs  any == CHOOSE i \in I : TRUE IN
  [b \in 1..Len(seqs[any]) |-> FoldSet(LAMBDA i, acc : acc + seqs[i][b], 0, I)]
TypeData(W, S, M) ==
  LET any == CHOOSE i \in M : TRUE IN
  [h  |-> [n \in DOMAIN S.insts[any].h  |-> SumSeq([i \in M |-> S.insts[i].h[n]])],
   ig |-> [n \in DOMAIN S.insts[any].ig |-> SumSeq([i \in M |-> S.insts[i].ig[n]])],
   il |-> [n \in DOMAIN S.insts[any].il |-> SumSeq([i \in M |-> S.insts[i].il[n]])],
   x  |-> [n \in DOMAIN S.insts[any].x  |-> SumSeq([i \in M |-> S.insts[i].x[n]])]]

(* ------------------------------ coverage ------------------------------- *)
\* exact weighted coverage of a data record d (instance or type) of shape sh, in 10^-4 units
ItemCovs(sh, d) ==
  [i \in 1..(Len(sh.cps) + Len(sh.xs)) |->
     IF i <= Len(sh.cps) THEN <<sh.cps[i].wt, CovOf(d.h[sh.cps[i].name], sh.cps[i].atl)>>
     ELSE LET x == sh.xs[i - Len(sh.cps)] IN <<x.wt, CovOf(d.x[x.name], x.atl)>>]
RECURSIVE SumW(_, _), SumWC(_, _)
SumW(ic, i) == IF i > Len(ic) THEN 0 ELSE ic[i][1] + SumW(ic, i + 1)
SumWC(ic, i) == IF i > Len(ic) THEN 0 ELSE ic[i][1] * ic[i][2] + SumWC(ic, i + 1)
GroupCov(sh, d) == LET ic == ItemCovs(sh, d) IN
                   IF Len(ic) = 0 \/ SumW(ic, 1) = 0 THEN Full ELSE SumWC(ic, 1) \div SumW(ic, 1)
\* every bin of every item that carries weight is covered (an item of weight 0 does not take part in the average)
AllCovered(sh, d) ==
  /\ \A i \in 1..Len(sh.cps) : sh.cps[i].wt > 0 => NCovered(d.h[sh.cps[i].name], sh.cps[i].atl) = Len(d.h[sh.cps[i].name])
  /\ \A i \in 1..Len(sh.xs) : sh.xs[i].wt > 0 => NCovered(d.x[sh.xs[i].name], sh.xs[i].atl) = Len(d.x[sh.xs[i].name])
Close(a, b) == a - b <= 2 /\ b - a <= 2

(* ------------------------ observation = projection ---------------------- *)
\* ev.obs.insts[i] = [h, ig, il, x, cov, cpcov: name |-> int, tcov]; ev.obs.types[k] = [members: Seq, h, ig, il, x, cov]
ObsCountsOK(W, T, obs) ==
  /\ Len(obs.insts) = Len(T.insts)
  /\ \A i \in 1..Len(T.insts) :
       /\ obs.insts[i].h = T.insts[i].h /\ obs.insts[i].ig = T.insts[i].ig
       /\ obs.insts[i].il = T.insts[i].il /\ obs.insts[i].x = T.insts[i].x
ObsTypesOK(W, T, obs) ==
  /\ \A i \in 1..Len(T.insts) : Cardinality({k \in 1..Len(obs.types) : i \in SeqSet(obs.types[k].members)}) = 1
  /\ \A k \in 1..Len(obs.types) :
       LET M == SeqSet(obs.types[k].members) IN
       /\ M # {} /\ \A i \in M : Members(W, T, i) = M                          \* shape separates types
       /\ LET d == TypeData(W, T, M) IN
          obs.types[k].h = d.h /\ obs.types[k].ig = d.ig /\ obs.types[k].il = d.il /\ obs.types[k].x = d.x
ObsCovOK(W, T, obs) ==
  /\ \A i \in 1..Len(T.insts) :
       LET sh == W.shapes[T.insts[i].shape] IN
       /\ Close(obs.insts[i].cov, GroupCov(sh, T.insts[i]))
       /\ \A c \in 1..Len(sh.cps) : Close(obs.insts[i].cpcov[sh.cps[c].name], CovOf(T.insts[i].h[sh.cps[c].name], sh.cps[c].atl))
       /\ (obs.insts[i].cov = Full) = AllCovered(sh, T.insts[i])
  /\ \A k \in 1..Len(obs.types) :
       LET M == SeqSet(obs.types[k].members) IN
       M = {} \/                                    \* (a type without instances is rejected by type_is_sum_of_inst)
       LET any == CHOOSE i \in M : TRUE
           sh == W.shapes[T.insts[any].shape]  d == TypeData(W, T, M) IN
       /\ Close(obs.types[k].cov, GroupCov(sh, d))
       /\ (obs.types[k].cov = Full) = AllCovered(sh, d)
       /\ \A i \in M : obs.insts[i].tcov = obs.types[k].cov
CovRangeOK(obs) ==
  /\ \A i \in 1..Len(obs.insts) : 0 <= obs.insts[i].cov /\ obs.insts[i].cov <= Full
  /\ \A k \in 1..Len(obs.types) : 0 <= obs.types[k].cov /\ obs.types[k].cov <= Full
\* never decreasing as samples arrive (types: compared per identical member prefix)
CovMonotone(S, obs) ==
  \A i \in 1..Len(S.cov) : i <= Len(obs.insts) => obs.insts[i].cov >= S.cov[i]

(* -------------------------------- events -------------------------------- *)
NewEffect(W, S, ev) == [S EXCEPT !.insts = Append(S.insts, MkInst(W, ev.shape))]
SampleEffect(W, S, ev) == [S EXCEPT !.insts[ev.inst] = SampleInst(W, S.insts[ev.inst], ev)]
\* a sweep: ev.seq is a sequence of value records sampled one after the other on one instance
RECURSIVE Sweep(_, _, _, _)
Sweep(W, inst, seq, i) == IF i > Len(seq) THEN inst ELSE Sweep(W, SampleInst(W, inst, [vals |-> seq[i]]), seq, i + 1)
SweepEffect(W, S, ev) == [S EXCEPT !.insts[ev.inst] = Sweep(W, S.insts[ev.inst], ev.seq, 1)]

Effect0(W, S, ev) ==
  CASE ev.op = "new"    -> NewEffect(W, S, ev)
    [] ev.op = "sample" -> SampleEffect(W, S, ev)
    [] ev.op = "sweep"  -> SweepEffect(W, S, ev)
    [] ev.op = "report" -> S
Effect(W, S, ev) == LET T == Effect0(W, S, ev) IN [T EXCEPT !.cov = [i \in 1..Len(ev.obs.insts) |-> ev.obs.insts[i].cov]]

Guard(W, S, ev) ==
  CASE ev.op = "new"    -> ev.shape \in DOMAIN W.shapes
    [] ev.op = "sample" -> ev.inst \in 1..Len(S.insts)
    [] ev.op = "sweep"  -> ev.inst \in 1..Len(S.insts)
    [] ev.op = "report" -> TRUE
    [] OTHER -> FALSE

\* report projections (C13): every view must equal the in-memory projection logged in the same event,
\* and the in-memory counts must be the specification's
ReportOK(ev, view, tol) ==
  view \notin DOMAIN ev
  \/ /\ ev[view].st = ev.mem.st                                      \* names, kinds and counts
     /\ Len(ev[view].covs) = Len(ev.mem.covs)
     /\ (tol >= 0 => \A i \in 1..Len(ev.mem.covs) : ev[view].covs[i] - ev.mem.covs[i] <= tol /\ ev.mem.covs[i] - ev[view].covs[i] <= tol)
MemOK(W, S, ev) ==
  /\ Len(ev.mem.st) = Len(ev.obs.types)
  /\ \A k \in 1..Len(ev.mem.st) :
       LET t == ev.mem.st[k]  o == ev.obs.types[k] IN
       /\ \A c \in 1..Len(t.cps) : [b \in 1..Len(t.cps[c].bins) |-> t.cps[c].bins[b][2]] = o.h[t.cps[c].name]
       /\ \A c \in 1..Len(t.xs)  : [b \in 1..Len(t.xs[c].bins) |-> t.xs[c].bins[b][2]] = o.x[t.xs[c].name]
       /\ Len(t.insts) = Len(o.members)
       /\ \A m \in 1..Len(t.insts) :
            LET oi == ev.obs.insts[o.members[m]]  ti == t.insts[m] IN
            /\ \A c \in 1..Len(ti.cps) : [b \in 1..Len(ti.cps[c].bins) |-> ti.cps[c].bins[b][2]] = oi.h[ti.cps[c].name]
            /\ \A c \in 1..Len(ti.xs)  : [b \in 1..Len(ti.xs[c].bins) |-> ti.xs[c].bins[b][2]] = oi.x[ti.xs[c].name]

Clauses(W, S, ev) ==
  IF ~Guard(W, S, ev) THEN [ known_event |-> FALSE ]
  ELSE LET T == Effect0(W, S, ev)
           clean == CASE ev.op = "sample" -> CrossClean(W, S.insts[ev.inst], ev)
                      [] ev.op = "sweep"  -> \A i \in 1..Len(ev.seq) : CrossClean(W, S.insts[ev.inst], [vals |-> ev.seq[i]])
                      [] OTHER -> TRUE IN
  [ no_exception        |-> ev.exc = "none",
    bin_counts_exact    |-> ev.exc = "none" => (clean => ObsCountsOK(W, T, ev.obs)),               \* C10, C11
    bin_structure       |-> ev.op = "new" /\ ev.exc = "none" => ObsCountsOK(W, T, ev.obs),         \* C10/C19: number of bins
    type_is_sum_of_inst |-> ev.exc = "none" => (clean => ObsTypesOK(W, T, ev.obs)),                \* C12
    coverage_exact      |-> ev.exc = "none" => (clean => ObsCovOK(W, T, ev.obs)),                  \* C12
    coverage_range      |-> ev.exc = "none" => CovRangeOK(ev.obs),
    coverage_monotone   |-> ev.exc = "none" => CovMonotone(S, ev.obs),
    report_read_only    |-> ev.op = "report" => ObsCountsOK(W, S, ev.obs),                         \* C13
    report_mem_is_spec  |-> ev.op = "report" /\ ev.exc = "none" => MemOK(W, S, ev),
    report_model_equal  |-> ev.op = "report" /\ ev.exc = "none" => ReportOK(ev, "model", 2),
    report_text_equal   |-> ev.op = "report" /\ ev.exc = "none" => ReportOK(ev, "text", 100),
    report_xml_equal    |-> ev.op = "report" /\ ev.exc = "none" => ReportOK(ev, "xml", 0 - 1) ]
=============================================================================
