import sys, io, contextlib, itertools, collections, random
import vsc
from vsc.impl.coverage_registry import CoverageRegistry
from vsc.impl.wildcard_bin_factory import WildcardBinFactory
def q(f):
    with contextlib.redirect_stdout(io.StringIO()): return f()
W=6; bad=collections.Counter(); ex={}
# 1. valmask2binlist exhaustive 6 bits
for mask in range(1<<W):
    for value in range(1<<W):
        if value & ~mask: continue   # canonical: value bits only where mask set
        exp=[v for v in range(1<<W) if (v & mask)==value]
        try: rl=WildcardBinFactory.valmask2binlist(value,mask)
        except Exception as e: bad[("exc",type(e).__name__)]+=1; ex.setdefault(("exc",type(e).__name__),(value,mask,str(e))); continue
        got=[]
        for r in rl: got.extend(range(r[0],r[1]+1))
        if got!=exp:
            k="mismatch-topbits" if (mask>>(W-1))&1==0 else "mismatch"
            bad[k]+=1; ex.setdefault(k,(bin(value),bin(mask),got[:10],exp[:10]))
print("valmask2binlist:",dict(bad), ex)
# 2. str2bin round trip in three bases
bad2=0
rnd=random.Random(1)
for t in range(3000):
    base=rnd.choice([2,8,16]); nd=rnd.randint(1,4); bits={2:1,8:3,16:4}[base]
    digs=[]; value=0; mask=0
    for i in range(nd):
        if rnd.random()<0.3: d=rnd.choice("xX?"); value<<=bits; mask<<=bits
        else:
            dv=rnd.randrange(base); d="0123456789abcdef"[dv]; value=(value<<bits)|dv; mask=(mask<<bits)|((1<<bits)-1)
        digs.append(d)
        if rnd.random()<0.2: digs.append("_")
    s={2:"0b",8:"0o",16:"0x"}[base]+"".join(digs)
    try: got=WildcardBinFactory.str2bin(s)
    except Exception as e: bad2+=1; print("str2bin exc",s,e); continue
    if got!=(value,mask): bad2+=1; print("str2bin mismatch",s,got,(value,mask))
print("str2bin mismatches",bad2)
# 3. single wildcard bin + array through covergroup, 4-bit
bad3=collections.Counter(); ex3={}
for t in range(300):
    CoverageRegistry.clear()
    pats=[]
    for _ in range(rnd.randint(1,2)):
        mask=rnd.randrange(16); value=rnd.randrange(16)&mask; pats.append((value,mask))
    n=rnd.choice([None,1,2,3])
    class CG(object):
        def __init__(self):
            self.with_sample(dict(a=vsc.bit_t(4)))
            self.cp1=vsc.coverpoint(self.a,bins={"w":vsc.wildcard_bin(*pats)})
            self.cp2=vsc.coverpoint(self.a,bins={"wa":vsc.wildcard_bin_array([] if n is None else [n],*pats)})
    try: cg=q(vsc.covergroup(CG))
    except Exception as e: bad3[("ctor",type(e).__name__)]+=1; ex3.setdefault(("ctor",type(e).__name__),(pats,n,str(e)[:80])); continue
    m=cg.get_model(); cp1,cp2=m.coverpoint_l
    match=sorted(v for v in range(16) if any((v&mk)==vl for vl,mk in pats))
    got1=[]; got2=[[] for _ in range(cp2.get_n_bins())]
    for v in range(16):
        b1=cp1.get_bin_hits(0); b2=[cp2.get_bin_hits(i) for i in range(cp2.get_n_bins())]
        q(lambda: cg.sample(v))
        if cp1.get_bin_hits(0)>b1: got1.append(v)
        for i in range(cp2.get_n_bins()):
            for _ in range(cp2.get_bin_hits(i)-b2[i]): got2[i].append(v)
    if got1!=match: bad3["single"]+=1; ex3.setdefault("single",(pats,got1,match))
    if n is None or n>=len(match): exp2=[[v] for v in match]
    else:
        per=len(match)//n; exp2=[match[i*per:(i+1)*per] for i in range(n)]; exp2[-1]=match[(n-1)*per:]
    if got2!=exp2: bad3[("array",n is None)]+=1; ex3.setdefault(("array",n is None),(pats,n,got2,exp2))
print("wildcard cg:",dict(bad3)); 
for k,v in ex3.items(): print("  ",k,str(v)[:300])
