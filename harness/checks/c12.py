"""C12 - instance and type coverage aggregate consistently and stay within 0..100."""
from .. import engine, fam_cov

LEVEL = "model_checking"
MODULE = "Trace_VscCov"
RUNNER = ("runner_cov", "run_scenario")


def run(tier, seed, limit=0):
    chk = engine.Check("C12", tier, seed)
    scs = fam_cov.family_types(tier, seed)
    if limit:
        scs = scs[:limit]
    chk.run_scenarios(scs, MODULE, fn=RUNNER, batch_events=2500)
    # the claims that quantify over EVERY sample sequence, decided on the requirement machine itself: two structures of
    # one class, instances created at any time, any value sampled on any instance (weights / thresholds per tier)
    chk.run_mc("MC_VscCov", {"MaxInst": 2, "MaxHits": 2, "AtL": 2, "W1": 2, "W2": 1}, workers=12,
               label="coverage machine: range, monotone, 100 <=> all covered, type >= instance, separate types")
    if tier != "quick":
        chk.run_mc("MC_VscCov", {"MaxInst": 2, "MaxHits": 2, "AtL": 1, "W1": 0, "W2": 3}, workers=12, label="coverage machine, weight 0 item")
        chk.run_mc("MC_VscCov", {"MaxInst": 3, "MaxHits": 1, "AtL": 1, "W1": 1, "W2": 1}, workers=12, label="coverage machine, three instances")
    return chk.finish(LEVEL, "random bin specifications (explicit bins, arrays with/without count, unordered/adjacent disjoint ranges, "
                      "ignore/illegal sets, auto-bins with auto_bin_max, enum, iff, signed types) each sampled with every value of the "
                      "type plus repeats and gated-off samples; TLC recomputes Partition(Values \\ Excluded, n) and every counter after "
                      "every event; distinct = distinct event content",
                      ["TLC 1.8; Cov.tla declarative bin semantics; CPython"])
