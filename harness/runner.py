"""Executes one scenario (world + operation skeleton) against the real pyvsc library and records
one event per public call at its return (normal or exceptional): DESIGN 4.2 instrument I3, plus
the I1 pin probes.  The runner only drives and records; it never judges."""
import contextlib
import io
import itertools
import random
import time
import re
import traceback

import vsc
from vsc.impl import ctor, expr_mode
from vsc.model.solve_failure import SolveFailure

from . import worlds
from .worlds import bits, enc, class_fields, chain_lookup, Emit, REC


class ScriptedRS:
    """RandState stand-in (instrument I2): every draw is a logged choice point taken from a script;
    unscripted draws take the lowest value.  clone() returns self so that set_randstate keeps the script."""

    def __init__(self, script):
        self.script = list(script)
        self.pos = 0
        self.log = []
        self.rng = self

    def clone(self):
        return self

    def randint(self, lo, hi):
        lo, hi = int(lo), int(hi)
        if hi < lo:
            lo, hi = hi, lo
        v = lo + (self.script[self.pos] if self.pos < len(self.script) else 0)
        if v > hi:
            v = hi
        self.pos += 1
        self.log.append((lo, hi, v))
        return v

    def rand_u(self):
        return self.randint(0, 0xFFFFFFFFFFFFFFFF)

    def rand_s(self):
        return self.rand_u()


class Injected(Exception):
    """user exception injected by the generated user code (C16)"""


def quiet(fn):
    with contextlib.redirect_stdout(io.StringIO()):
        return fn()


def exc_name(e):
    if e is None:
        return "none"
    if isinstance(e, SolveFailure):
        return "SolveFailure"
    if isinstance(e, Injected):
        return "Injected"
    tb = traceback.extract_tb(e.__traceback__)
    fr = [f for f in tb if "/vsc/" in f.filename]
    where = "%s:%s" % (fr[-1].filename.split("/")[-1], fr[-1].name) if fr else "?"
    return "Other:%s@%s" % (type(e).__name__, where)


CUR = {"session": None}


def stk():
    d = {"expr_l": len(ctor.expr_l), "scope": len(ctor.constraint_scope_stack),
         "expr_mode": len(expr_mode._expr_mode), "raw_mode": len(expr_mode._raw_mode),
         "srcinfo": len(ctor.srcinfo_mode_s), "foreach": len(ctor.foreach_arr_s)}
    s = CUR["session"]
    if s is not None:
        d.update(leftovers(s))
    return d


def leftovers(sess):
    """temporary rewrites (ConstraintOverrideModel nodes) and live solver handles still reachable from
    the models of the session's top-level objects - read by walking the model, no hook"""
    from vsc.model.constraint_override_model import ConstraintOverrideModel
    n_over = n_var = 0
    seen = set()
    stack = []
    for o in sess.tops.values():
        try:
            stack.append(o.get_model())
        except Exception:
            pass
    while stack:
        x = stack.pop()
        if id(x) in seen:
            continue
        seen.add(id(x))
        if isinstance(x, ConstraintOverrideModel):
            n_over += 1
        if isinstance(x, (list, tuple)):
            stack.extend(x)
            continue
        if isinstance(x, dict):
            stack.extend(x.values())
            continue
        mod = getattr(type(x), "__module__", "") or ""
        if not mod.startswith("vsc.model"):
            continue
        if getattr(x, "var", None) is not None and hasattr(x, "is_used_rand"):
            n_var += 1
        for k, v in vars(x).items():
            if k in ("parent", "srcinfo", "val", "node", "var", "btor", "randstate",
                     # memo caches of dynamic expressions: they may still name element fields that have left the list
                     # (no longer part of the object's model) and play no role in later calls
                     "cached_expr", "cached_node", "sum_expr", "product_expr"):
                continue
            if isinstance(v, (list, tuple, dict)) or (getattr(type(v), "__module__", "") or "").startswith("vsc.model"):
                stack.append(v)
    return {"overrides": n_over, "handles": n_var}


def reset_globals():
    """fresh session state before a scenario starts (never inside one)"""
    ctor.test_setup()
    expr_mode._expr_mode.clear()
    expr_mode._raw_mode.clear()
    ctor.srcinfo_mode_s.clear()


class Session:
    def __init__(self, scn, seed=0):
        self.scn = scn
        self.world = scn["world"]
        self.W = worlds.flatten(self.world)
        self.hooks = {"exc": Injected, "raise": set(), "raise_in_block": {}}
        self.classes = None
        self.tops = {}
        self.events = []
        self.rnd = random.Random(seed)
        self.cb_log = []
        self.objpath = {}
        REC.on_event = self.on_cb
        CUR["session"] = self
        self.fired = False
        self.cb_script = {}       # (phase, objpath) -> list of actions
        self.population = {}      # (id(owner), list path) -> the element objects of a random-size object list

    # ---------------------------------------------------------------- projection
    def project(self):
        v, sz = {}, {}
        try:
            for ent in self.world["population"]:
                tid = ent["id"]
                if tid not in self.tops:
                    continue
                if "cls" in ent:
                    self._proj_obj(tid, self.tops[tid], ent["cls"], v, sz)
                elif ent.get("kind") == "enum":
                    v[tid] = enc(int(self.tops[tid].get_val()), 32, True)
                else:
                    v[tid] = enc(self.tops[tid].get_val(), ent["w"], ent["signed"])
        except Exception as e:       # an access path that raises is reported through the projection
            return {"v": {"__error__": [0]}, "sz": {}, "err": exc_name(e)}
        return {"v": v, "sz": sz}

    def _proj_obj(self, path, obj, cls, v, sz):
        self.objpath[id(obj)] = path
        for f in class_fields(self.world, cls):
            p = path + "." + f["name"]
            k = f["kind"]
            if k == "scalar":
                v[p] = enc(getattr(obj, f["name"]), f["w"], f["signed"])
            elif k == "enum":
                v[p] = enc(int(getattr(obj, f["name"])), 32, True)
            elif k == "obj":
                self._proj_obj(p, getattr(obj, f["name"]), f["cls"], v, sz)
            elif k == "objlist":
                lst = getattr(obj, f["name"])
                sz[p] = len(lst)
                if f.get("randsz"):
                    # the population (the objects the user appended) is remembered at first sight: elements the solver
                    # hides keep their paths, the exposed length is sz
                    key = (id(obj), p)
                    if key not in self.population:
                        self.population[key] = [lst[i] for i in range(len(lst))]
                    for i, e_ in enumerate(self.population[key][:f["n"]]):
                        self._proj_obj("%s[%d]" % (p, i), e_, f["cls"], v, sz)
                    continue
                for i in range(min(len(lst), f["n"])):
                    self._proj_obj("%s[%d]" % (p, i), lst[i], f["cls"], v, sz)
            elif k == "list":
                lst = getattr(obj, f["name"])
                n = len(lst)
                sz[p] = n
                for i in range(n):
                    v["%s[%d]" % (p, i)] = enc(int(lst[i]), f["w"], f["signed"])

    def list_views(self, path):
        """the four ways a user can look at a list (C04): must describe one sequence"""
        lst = self.lookup(path)
        f = self.field_of(path)
        w, s = f["w"], f["signed"]
        n = len(lst)
        return {"len": n, "size": int(lst.size), "index": [enc(int(lst[i]), w, s) for i in range(n)],
                "iter": [enc(int(x), w, s) for x in lst]}

    # ---------------------------------------------------------------- helpers
    def lookup(self, path):
        m = re.match(r"([A-Za-z_][A-Za-z_0-9]*)(.*)", path)
        top = self.tops[m.group(1)]
        rest = m.group(2).lstrip(".")
        return chain_lookup(top)(rest) if rest else top

    def raw_lookup(self, path):
        with vsc.raw_mode():
            return self.lookup(path)

    def field_of(self, path):
        """world field declaration of an absolute path (scalar, list...)"""
        m = re.match(r"([A-Za-z_][A-Za-z_0-9]*)(.*)", path)
        ent = [e for e in self.world["population"] if e["id"] == m.group(1)][0]
        if "cls" not in ent:
            return ent
        cls = ent["cls"]
        f = None
        for name in re.findall(r"\.([A-Za-z_][A-Za-z_0-9]*)", m.group(2)):
            f = [x for x in class_fields(self.world, cls) if x["name"] == name][0]
            if f["kind"] in ("obj", "objlist"):
                cls = f["cls"]
        return f

    def to_py(self, path, b):
        """bit list -> python value to assign/pin for the field at path"""
        f = self.field_of(path)
        if f["kind"] == "enum":
            et = self.classes["__enums__"][self.enum_key(path)]
            return et(worlds.unbits(b, True))
        return worlds.unbits(b, f["signed"])

    def enum_key(self, path):
        m = re.match(r"([A-Za-z_][A-Za-z_0-9]*)(.*)", path)
        ent = [e for e in self.world["population"] if e["id"] == m.group(1)][0]
        if "cls" not in ent:
            return ("", ent["id"])
        cls = ent["cls"]
        owner = cls
        names = re.findall(r"\.([A-Za-z_][A-Za-z_0-9]*)", m.group(2))
        for name in names:
            # find the declaring class of `name` along the hierarchy of cls
            c = cls
            while True:
                if any(x["name"] == name for x in self.world["classes"][c]["fields"]):
                    owner = c
                    break
                c = self.world["classes"][c]["base"]
            f = [x for x in self.world["classes"][owner]["fields"] if x["name"] == name][0]
            if f["kind"] in ("obj", "objlist"):
                cls = f["cls"]
        return (owner, names[-1])

    def on_cb(self, phase, obj):
        path = self.objpath.get(id(obj), "?")
        rec = {"ph": phase, "o": path, "assigned": []}
        for act in self.cb_script.get((phase, path), []):
            if "assign" in act:
                p = act["assign"]
                self.assign(p, act["v"])
                rec["assigned"].append({"p": p, "v": act["v"]})
            if "raise" in act:
                rec["seen"] = self.project()["v"]
                rec["raised"] = True
                self.fired = True
                self.cb_log.append(rec)
                raise Injected("injected in %s of %s" % (phase, path))
        rec["seen"] = self.project()["v"]
        self.cb_log.append(rec)

    def assign(self, path, b):
        """user-level assignment of bit pattern b to scalar path"""
        val = self.to_py(path, b)
        m = re.match(r"(.*)\[(\d+)\]$", path)
        if m and self.field_of(path)["kind"] == "list":
            self.lookup(m.group(1))[int(m.group(2))] = val
            return
        if "." in path:
            owner, name = path.rsplit(".", 1)
            setattr(self.lookup(owner), name, val)
        else:
            self.tops[path].set_val(val)

    def emit(self, ev):
        self.events.append(ev)

    def guarded(self, fn):
        """run one public call; returns the outcome name ("none", "SolveFailure", "Injected",
        "Other:<Type>@file:function").  The exception object is dropped at once: its traceback keeps
        solver nodes alive past their Boolector instance, and freeing them later can crash CPython."""
        try:
            quiet(fn)
            return "none"
        except Exception as e:          # noqa
            name = exc_name(e)
            traceback.clear_frames(e.__traceback__)
            e.__traceback__ = None
            del e
            return name

    # ---------------------------------------------------------------- ops
    def run(self):
        reset_globals()
        try:
            self.classes = worlds.build_classes(self.world, self.hooks)
        except Exception as e:
            self.emit({"op": "build_classes", "exc": e, "stk": stk()})
            return self.events
        for op in self.scn["ops"]:
            getattr(self, "op_" + op["op"])(op)
        return self.events

    def op_construct(self, op):
        ent = [e for e in self.world["population"] if e["id"] == op["o"]][0]

        fault = op.get("fault")
        self.fired = False

        def do():
            if "cls" in ent:
                self.tops[op["o"]] = self.classes[ent["cls"]]()
            else:
                o = worlds.build_free(ent, self.classes["__enums__"])
                o.get_model()
                self.tops[op["o"]] = o
        if fault:
            self.hooks["raise_in_block"] = {(fault["cls"], fault["blk"]): fault.get("pos", 0)}
            self.hooks["on_fire"] = self._mark_fired
        try:
            e = self.guarded(do)
        finally:
            self.hooks["raise_in_block"] = {}
        ev = {"op": "construct", "o": op["o"], "exc": e, "post": self.project(), "stk": stk()}
        if fault:
            ev["fault"] = {"ph": "ctor", "o": op["o"]}
            ev["fired"] = bool(self.fired)
        self.emit(ev)

    def _mark_fired(self):
        self.fired = True

    def op_set(self, op):
        e = self.guarded(lambda: self.assign(op["p"], op["v"]))
        self.emit({"op": "set", "p": op["p"], "v": op["v"], "exc": e, "post": self.project(), "stk": stk()})

    def op_rand_mode(self, op):
        def do():
            if self.is_scalar(op["p"]):
                with vsc.raw_mode():
                    self.lookup(op["p"]).rand_mode = op["b"]
            else:
                self.lookup(op["p"]).rand_mode = op["b"]
        e = self.guarded(do)
        self.emit({"op": "rand_mode", "p": op["p"], "b": op["b"], "exc": e,
                   "post": self.project(), "stk": stk()})

    def is_scalar(self, p):
        return p in self.W["scalars"]

    def op_cmode(self, op):
        def do():
            if op.get("raw"):
                # inside a raw_mode section (where users also set the rand_mode of scalar fields): the same per-instance toggle
                with vsc.raw_mode():
                    getattr(self.lookup(op["o"]), op["b"]).constraint_mode(op["en"])
            else:
                getattr(self.lookup(op["o"]), op["b"]).constraint_mode(op["en"])
        e = self.guarded(do)
        self.emit({"op": "cmode", "o": op["o"], "b": op["b"], "en": op["en"], "exc": e,
                   "post": self.project(), "stk": stk()})

    def op_rl(self, op):
        rl = self.lookup(op["p"])

        def do():
            if op["kind"] == "rl_clear":
                rl.clear()
            elif op["kind"] == "rl_append":
                rl.append(self._rl_py(op["items"][0]))
            else:
                rl.extend([self._rl_py(it) for it in op["items"]])
        e = self.guarded(do)
        self.emit({"op": op["kind"], "p": op["p"], "added": [worlds.rl_item(it) for it in op.get("items", [])],
                   "exc": e, "post": self.project(), "stk": stk()})

    @staticmethod
    def _rl_py(it):
        return tuple(it) if isinstance(it, (list, tuple)) else it

    def op_list(self, op):
        lst_path = op["p"]
        f = self.field_of(lst_path)
        vals = [worlds.unbits(b, f["signed"]) for b in op.get("vs", [])]

        def do():
            lst = self.lookup(lst_path)
            k = op["kind"]
            if k == "l_append":
                lst.append(vals[0])
            elif k == "l_extend":
                lst.extend(vals)
            elif k == "l_clear":
                lst.clear()
            elif k == "l_setitem":
                lst[op["i"]] = vals[0]
            elif k == "l_assign":
                owner, name = lst_path.rsplit(".", 1)
                setattr(self.lookup(owner), name, vals)
        e = self.guarded(do)
        ev = {"op": op["kind"], "p": lst_path, "vs": op.get("vs", []), "i": op.get("i", 0), "exc": e,
              "post": self.project(), "stk": stk()}
        try:
            ev["views"] = self.list_views(lst_path)
        except Exception as ex:
            ev["views"] = {"len": -1, "size": -1, "index": [], "iter": []}
        self.emit(ev)

    def op_ol_refill(self, op):
        """clear an object list and append the same number of fresh objects"""
        f = self.field_of(op["p"])

        def do():
            lst = self.lookup(op["p"])
            lst.clear()
            self.population = {k_: v_ for k_, v_ in self.population.items() if k_[1] != op["p"]}
            for _ in range(f["n"]):
                e_ = self.classes[f["cls"]]()
                lst.append(vsc.rand_attr(e_) if f["rand"] else vsc.attr(e_))
        e = self.guarded(do)
        self.emit({"op": "ol_refill", "p": op["p"], "exc": e, "post": self.project(), "stk": stk()})

    def op_ol_setitem(self, op):
        """lst[i] = a fresh object: the new object takes the place of the old one"""
        f = self.field_of(op["p"])

        def do():
            lst = self.lookup(op["p"])
            e_ = self.classes[f["cls"]]()
            if op.get("plain"):
                lst[op["i"]] = e_                 # a plain object: the list passes its own declaration on to the element
            else:
                lst[op["i"]] = vsc.rand_attr(e_) if f["rand"] else vsc.attr(e_)
        e = self.guarded(do)
        self.emit({"op": "ol_setitem", "p": op["p"], "i": op["i"], "exc": e, "post": self.project(), "stk": stk()})

    # ---- calls
    def _do_call(self, call, extra_pins=None):
        """performs the randomize call described by `call`; extra_pins: list of (path, bits)"""
        kind = call["kind"]
        flags = call.get("flags", {})
        roots = [self.lookup(r) for r in call["roots"]]
        inline = call.get("inline", [])
        body_raise = call.get("raise_in_body")

        if isinstance(body_raise, int):
            body_raise = (min(body_raise, len(inline)),)

        def body(lookup_fn):
            def fire():
                self.fired = True
                raise Injected("injected in with-body at %s" % (body_raise,))
            em = Emit(lookup_fn, body_raise if body_raise is not None and tuple(body_raise) != (len(inline),) else None, fire)
            em.stmts(inline)
            for (p, b) in (extra_pins or []):
                rel = p
                tgt = pin_lookup(p)
                tgt == self.to_py(p, b)
            if body_raise is not None and tuple(body_raise) == (len(inline),):
                fire()

        if kind == "method":
            roots[0].randomize(**flags)
        elif kind == "with":
            with roots[0].randomize_with(**flags) as it:
                owner = call["owner"]

                def pin_lookup(p, _it=it, _owner=owner):
                    return chain_lookup(_it)(p[len(_owner) + 1:])
                body(lambda rel, _it=it: chain_lookup(_it)(rel))
        elif kind == "free":
            vsc.randomize(*roots, **flags)
        elif kind == "free_with":
            with vsc.randomize_with(*roots, **flags):
                def pin_lookup(p):
                    return self.lookup(p)
                body(self.lookup)
        else:
            raise ValueError(kind)

    def op_call(self, op):
        call = op["call"]
        self.cb_log = []
        self.cb_script = {}
        for c in op.get("cb_script", []):
            self.cb_script.setdefault((c["ph"], c["o"]), []).append(c)
        fault = op.get("fault")
        self.fired = False
        if fault and fault["ph"] in ("pre", "post"):
            self.cb_script.setdefault((fault["ph"], fault["o"]), []).append({"raise": True})
        elif fault and fault["ph"] == "body":
            call = dict(call, raise_in_body=fault.get("pos", 0))
        pre = self.project()
        e = self.guarded(lambda: self._do_call(call))
        post = self.project()
        ev = {"op": "call", "call": self._call_rec(call), "pre": pre, "post": post, "exc": e,
              "cbs": self.cb_log, "stk": stk()}
        if fault:
            ev["fault"] = {"ph": fault["ph"], "o": fault.get("o", "")}
            ev["fired"] = bool(self.fired)
        pres = [c for c in self.cb_log if c["ph"] == "pre"]
        if pres:
            # the state the solver saw: the projection at the end of the last pre_randomize callback
            ev["mid"] = {"v": pres[-1]["seen"], "sz": pre["sz"]}
        views = {}
        for lp, ld in self.W["lists"].items():
            if ld["isobj"] and ld["randsz"] and ld["top"] in self.tops:
                # an object list is viewed as the positions of its exposed objects in the population
                try:
                    lst = self.lookup(lp)
                    owner = self.lookup(lp.rsplit(".", 1)[0])
                    pop = self.population.get((id(owner), lp), [])
                    pos = lambda o_: next((i for i, e_ in enumerate(pop) if e_ is o_), 99)
                    views[lp] = {"len": len(lst), "size": int(lst.size), "index": [pos(lst[i]) for i in range(len(lst))],
                                 "iter": [pos(x) for x in lst]}
                except Exception:
                    views[lp] = {"len": -1, "size": -1, "index": [], "iter": []}
            if not ld["isobj"] and ld["top"] in self.tops:
                try:
                    views[lp] = self.list_views(lp)
                except Exception:
                    views[lp] = {"len": -1, "size": -1, "index": [], "iter": []}
        ev["views"] = views
        self.cb_script = {}
        self.emit(ev)

    @staticmethod
    def _call_rec(call):
        return {"kind": call["kind"], "roots": call["roots"], "owner": call.get("owner", ""),
                "inline": worlds.norm_stmts(call.get("inline", []))}

    def op_probe(self, op):
        self.cb_script = {}            # callbacks only record during probes
        self.cb_log = []
        call = op["call"]
        paths = op["paths"]
        if isinstance(paths, str) and paths.startswith("ALL:"):
            top = paths[4:]
            # every scalar below the top object, except elements of non-random lists (constants; the library cannot
            # index a list that is reached through a list element inside a constraint)
            def nonrand_elem(p_):
                m_ = re.match(r"(.*)\[\d+\]$", p_)
                return bool(m_) and m_.group(1) in self.W["lists"] and not self.W["lists"][m_.group(1)]["declrand"]
            paths = sorted(p_ for p_ in self.project()["v"] if (p_ == top or p_.startswith(top + ".")) and not nonrand_elem(p_))
        cap = op.get("cap", 4096)
        doms = []
        for p in paths:
            f = self.field_of(p)
            if f["kind"] == "enum":
                doms.append([worlds.unbits(bits(v, 32)) for v in f["values"]])
            elif f["w"] > 12:
                # too wide to enumerate: boundary values of the type plus a few random ones (as unsigned patterns)
                w_ = f["w"]
                dv = {0, 1, 2, (1 << (w_ - 1)) - 1, 1 << (w_ - 1), (1 << (w_ - 1)) + 1, (1 << w_) - 2, (1 << w_) - 1}
                dv |= {self.rnd.getrandbits(w_) for _ in range(4)}
                dv |= {int(x) & ((1 << w_) - 1) for x in op.get("hints", {}).get(p, [])}
                doms.append(sorted(dv))
            else:
                doms.append(list(range(1 << f["w"])))
        total = 1
        for d in doms:
            total *= len(d)
        saved = self.project()
        wide = any(self._w(p_) > 12 for p_ in paths)
        if op.get("mode") == "around":
            # rows = a few real solutions of the unpinned call plus all their single-field mutations
            sols = []
            for _ in range(op.get("nsol", 3)):
                if self.guarded(lambda: self._do_call(call)) == "none":
                    cur = self.project()["v"]
                    sols.append(tuple(worlds.unbits(cur[p]) for p in paths))
            if not sols:
                sols = [tuple(worlds.unbits(saved["v"][p]) for p in paths)]
            combos, seen = [], set()
            for sol in sols:
                cand = [sol]
                for j, d in enumerate(doms):
                    vals = d if len(d) <= 4 else self.rnd.sample(d, 4)
                    cand += [sol[:j] + (v,) + sol[j + 1:] for v in vals if v != sol[j]]
                for c_ in cand:
                    if c_ not in seen:
                        seen.add(c_)
                        combos.append(c_)
            combos = combos[:cap]
            # put the pre-probe values back before pinning (the pins of non-random paths must match them)
            cur = self.project()
            for p_, b_ in saved["v"].items():
                if cur["v"].get(p_) != b_ and len(b_) == self._w(p_):
                    try:
                        self.assign(p_, b_)
                    except Exception:
                        pass
        elif total <= cap:
            combos = list(itertools.product(*doms))
        else:
            combos = [tuple(self.rnd.choice(d) for d in doms) for _ in range(cap)]
        rows = []
        others = {}
        for combo in combos:
            pins = []
            for p, n in zip(paths, combo):
                f = self.field_of(p)
                w = 32 if f["kind"] == "enum" else f["w"]
                pins.append((p, bits(n, w)))
            e = self.guarded(lambda: self._do_call(call, pins))
            out = 1 if e == "none" else (0 if e == "SolveFailure" else 2)
            if out == 2:
                others[e] = others.get(e, 0) + 1
                reset_soft()
            if wide:
                rows.append([bits(n_, self._w(p_)) for p_, n_ in zip(paths, combo)] + [out])
            else:
                rows.append(list(combo) + [out])
        # restore the values the probes overwrote
        cur = self.project()
        for p, b in saved["v"].items():
            if cur["v"].get(p) != b and len(b) == self._w(p):
                try:
                    self.assign(p, b)
                except Exception:
                    pass
        ev = {"op": "probe", "call": self._call_rec(call), "paths": paths, "rows": rows, "wide": wide,
              "post": self.project(), "stk": stk(), "exc": "none"}
        if others:
            ev["other_exc"] = others
        self.emit(ev)

    # ---- I2: exhaustive draw-path exploration
    def model_of(self, path):
        m = re.match(r"(.*)\[(\d+)\]$", path)
        if m and self.field_of(path)["kind"] == "list":
            return self.lookup(m.group(1)).get_model().field_l[int(m.group(2))]
        if "." in path:
            owner, name = path.rsplit(".", 1)
            with vsc.raw_mode():
                return getattr(self.lookup(owner), name).get_model()
        return self.tops[path].get_model()

    def restore(self, saved):
        cur = self.project()
        for p_, b_ in saved["v"].items():
            if cur["v"].get(p_) != b_ and len(b_) == self._w(p_):
                try:
                    self.assign(p_, b_)
                except Exception:
                    pass

    def op_explore(self, op):
        from fractions import Fraction
        import random as _random
        from vsc.impl import verif_hook
        self.cb_script = {}
        self.cb_log = []
        call = op["call"]
        paths = op["paths"]
        maxp = op.get("max_paths", 30000)
        max_secs = op.get("max_secs", 100)
        t_start = time.time()
        saved = self.project()
        id2path = {}
        for p in paths:
            try:
                id2path[id(self.model_of(p))] = p
            except Exception:
                pass
        outcomes, stack, n, glob, other = {}, [[]], 0, [0], 0
        complete = True
        hook = {}

        def sink(kind, payload):
            if kind == "solve_begin" and "bounds" not in hook:
                hook["bounds"] = {id2path[id(f)]: r for f, r, c in payload["bound_fields"] if id(f) in id2path}
                hook["order"] = [rs["order"] for rs in payload["randsets"] if rs["order"]]
        orig = {k: getattr(_random, k) for k in ("randint", "random", "randrange", "sample", "choice", "getrandbits", "shuffle")}

        def spy(name):
            def f(*a, **kw):
                glob[0] += 1
                return orig[name](*a, **kw)
            return f
        verif_hook.sink = sink
        try:
            while stack:
                script = stack.pop()
                self.restore(saved)
                rs = ScriptedRS(script)
                c2 = dict(call)
                if call["kind"] in ("method", "with"):
                    self.lookup(call["roots"][0]).set_randstate(rs)
                else:
                    c2["flags"] = dict(call.get("flags", {}), randstate=rs)
                for k in orig:
                    setattr(_random, k, spy(k))
                try:
                    e = self.guarded(lambda: self._do_call(c2))
                finally:
                    for k in orig:
                        setattr(_random, k, orig[k])
                if e == "none":
                    cur = self.project()["v"]
                    res = tuple(worlds.unbits(cur[p]) for p in paths)
                elif e == "SolveFailure":
                    res = "FAIL"
                else:
                    res = "FAIL"
                    other += 1
                n += 1
                w = Fraction(1)
                for lo, hi, v in rs.log:
                    w /= (hi - lo + 1)
                for pos in range(len(script), len(rs.log)):
                    lo, hi, v = rs.log[pos]
                    if hi - lo > 4096:
                        complete = False          # a draw over a huge range cannot be enumerated
                        continue
                    for alt in range(1, hi - lo + 1):
                        stack.append([x[2] - x[0] for x in rs.log[:pos]] + [alt])
                outcomes[res] = outcomes.get(res, 0) + w
                if n >= maxp or time.time() - t_start > max_secs:
                    # the enumeration is cut short (path budget, or wall clock on a loaded machine): the event says so and the
                    # clauses that need every draw sequence do not apply
                    complete = False
                    break
        finally:
            verif_hook.sink = None
        if call["kind"] in ("method", "with"):
            self.lookup(call["roots"][0]).set_randstate(vsc.RandState.mkFromSeed(1))
        self.restore(saved)
        big = 1 << 30

        def fr(x):
            x = Fraction(x)
            return [x.numerator, x.denominator]
        mass = sum(outcomes.values())
        marg = []
        for j in range(len(paths)):
            m = {}
            for o_, pr in outcomes.items():
                if o_ != "FAIL":
                    m[o_[j]] = m.get(o_[j], 0) + pr
            marg.append([{"v": v, "p": fr(pr)} for v, pr in sorted(m.items())])
        dist = [{"fail": o_ == "FAIL", "o": (list(o_) if o_ != "FAIL" else []), "p": fr(pr)}
                for o_, pr in sorted(outcomes.items(), key=lambda kv: str(kv[0]))]
        allfr = [d["p"] for d in dist] + [x["p"] for m in marg for x in m] + [fr(mass)]
        if any(a >= big or b >= big for a, b in allfr):
            complete = False
            for d in dist:
                d["p"] = [1 if d["p"][0] > 0 else 0, 1]
            for m in marg:
                for x in m:
                    x["p"] = [1 if x["p"][0] > 0 else 0, 1]
        ev = {"op": "explore", "call": self._call_rec(call), "paths": paths, "complete": bool(complete), "npaths": n,
              "glob": glob[0], "other": other, "mass": fr(mass) if complete else [1, 1], "dist": dist, "marg": marg,
              "bounds": hook.get("bounds", {}), "order": hook.get("order", []),
              "dist_free": op.get("dist_free", []), "uniform": op.get("uniform", []),
              "memo_put": op.get("memo_put", ""), "memo_eq": op.get("memo_eq", ""),
              "pre": saved, "post": self.project(), "stk": stk(), "exc": "none"}
        self.emit(ev)

    def op_select(self, op):
        """distselect / randselect observed for every value the generator can return (C15)"""
        import random as _random
        weights = op["weights"]
        results, called = [], []
        orig = _random.randint
        exc = "none"
        # which range does the helper draw from?  (observed, not assumed)
        rng_seen = []

        def first(a, b):
            rng_seen.append((int(a), int(b)))
            return a
        _random.randint = first
        try:
            if op["kind"] == "distselect":
                vsc.distselect(list(weights))
            else:
                vsc.randselect([(w, (lambda: None)) for w in weights])
        except Exception as e:
            exc = exc_name(e)
        finally:
            _random.randint = orig
        lo, hi = rng_seen[0] if rng_seen else (1, 0)
        for seed in range(lo, hi + 1):
            _random.randint = lambda a, b, _s=seed: _s
            try:
                if op["kind"] == "distselect":
                    results.append(vsc.distselect(list(weights)) + 1)
                else:
                    hit = []
                    vsc.randselect([(w, (lambda i=i: hit.append(i + 1))) for i, w in enumerate(weights)])
                    results.append(hit[0] if len(hit) == 1 else 0)
                    called.append(hit[0] if len(hit) == 1 else 0)
            except Exception as e:
                exc = exc_name(e)
                results.append(0)
            finally:
                _random.randint = orig
        self.emit({"op": "select", "kind": op["kind"], "weights": weights, "results": results, "lo": lo, "hi": hi, "ndraws": len(rng_seen),
                   "called": called if op["kind"] == "randselect" else results, "exc": exc})

    def _w(self, p):
        f = self.field_of(p)
        return 32 if f["kind"] == "enum" else f["w"]


def reset_soft():
    """after an unexpected exception inside a probe row: drop half-built DSL state so the next row is
    not a consequence of this one (the leak itself is what C16 checks, in its own scenarios)"""
    ctor.expr_l.clear()
    ctor.constraint_scope_stack.clear()
    expr_mode._expr_mode.clear()
    expr_mode._raw_mode.clear()
    ctor.srcinfo_mode_s.clear()


def run_scenario(scn, seed=0):
    import random as _random
    import zlib
    _random.seed(zlib.crc32(scn["id"].encode()) ^ 0x5eed)     # Python's global generator seeds every default RandState
    s = Session(scn, seed)
    try:
        events = s.run()
        return {"id": scn["id"], "world": s.W, "events": events}
    except Exception as e:
        return {"id": scn["id"], "world": s.W, "events": s.events,
                "harness_error": "%s: %s\n%s" % (type(e).__name__, e, traceback.format_exc())}
