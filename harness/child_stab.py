"""Child process of the C09 driver: executes one history under one environment and prints the recorded
events as JSON on stdout.  Environment = hash seed (set by the parent through PYTHONHASHSEED), diagnostic
settings (VSC_* variables set by the parent, per-call debug flags) and interleaved unrelated activity."""
import contextlib
import gc
import io
import json
import os
import random
import sys

REPO = os.environ.get("VERIF_REPO", "/repo")
sys.path.insert(0, os.path.join(REPO, "src"))
sys.path.insert(0, os.path.dirname(os.path.dirname(os.path.abspath(__file__))))

import vsc                                    # noqa: E402
from harness import runner, worlds            # noqa: E402


def main():
    job = json.load(sys.stdin)
    scn, env = job["scn"], job["env"]
    real_stdout = sys.stdout
    sys.stdout = io.StringIO()                # the library prints diagnostics; keep the channel clean
    s = runner.Session({"id": scn["id"], "world": scn["world"], "ops": []}, 0)
    runner.reset_globals()
    if env.get("srcinfo"):
        pass                                  # VSC_CAPTURE_SRCINFO is set by the parent before the import
    s.classes = worlds.build_classes(s.world, s.hooks)
    events = []
    snaps = {}
    noise_rng = random.Random(env.get("noise_seed", 1))       # private generator: never the global one
    junk = []

    @vsc.randobj
    class Noise(object):
        def __init__(self):
            self.p = vsc.rand_bit_t(8)
            self.q = vsc.rand_bit_t(8)

        @vsc.constraint
        def c(self):
            self.p < self.q
    noise_obj = [None]

    def noise():
        k = env.get("noise", [])
        if "other" in k:
            if noise_obj[0] is None:
                noise_obj[0] = Noise()
                noise_obj[0].set_randstate(vsc.RandState.mkFromSeed(noise_rng.randrange(1000)))
            for _ in range(noise_rng.randint(1, 3)):
                noise_obj[0].randomize()
        if "global" in k:
            for _ in range(noise_rng.randint(1, 5)):
                random.random()
        if "gc" in k:
            junk.append([object() for _ in range(noise_rng.randint(10, 500))])
            if noise_rng.random() < 0.5:
                junk.clear()
            gc.collect()
        if "hash" in k:
            d = {("k%d" % noise_rng.randrange(10 ** 6)): i for i in range(50)}
            junk.append(set(d))

    def proj(o):
        p = s.project()["v"]
        return {k: v for k, v in p.items() if k == o or k.startswith(o + ".")}

    orig = {k: getattr(random, k) for k in ("randint", "random", "randrange", "sample", "choice", "getrandbits", "shuffle")}
    glob = [0]

    def spy(name):
        def f(*a, **kw):
            glob[0] += 1
            return orig[name](*a, **kw)
        return f

    stated = set()
    for op in scn["ops"]:
        k = op["op"]
        if k in ("seed",):
            stated.update(op["os"])
        if k in ("default", "restore"):
            stated.add(op["o"])
        if k == "construct":
            s.op_construct(op)
            continue
        if k == "set":
            s.assign(op["p"], op["v"])
            continue
        noise()
        if k == "seed_global":
            random.seed(op["s"])
            events.append({"op": "seed_global", "s": op["s"]})
        elif k == "seed":
            rs = vsc.RandState.mkFromSeed(op["s"], op.get("str"))
            for o in op["os"]:
                s.lookup(o).set_randstate(rs)             # one RandState object may seed several objects
                events.append({"op": "seed", "o": o, "s": op["s"] * 1000 + (sum(map(ord, op["str"])) if op.get("str") else 0)})
        elif k == "default":
            s.lookup(op["o"]).get_randstate()             # forces the default state to be derived now
            events.append({"op": "default", "o": op["o"]})
        elif k == "snap":
            if op["o"] not in stated:
                # the first state-related call on a fresh object derives the default state (one global draw), then copies it
                events.append({"op": "default", "o": op["o"]})
                stated.add(op["o"])
            snaps[op["name"]] = s.lookup(op["o"]).get_randstate()
            events.append({"op": "snap", "o": op["o"], "name": op["name"]})
        elif k == "restore":
            s.lookup(op["o"]).set_randstate(snaps[op["name"]])
            events.append({"op": "restore", "o": op["o"], "name": op["name"]})
        # --- states held by the user under a name (a stream of their own, "u:<name>"): created from a seed, copied into and out
        #     of objects, advanced by free-standing calls that are given the state itself (replay of B_RandState behaviours)
        elif k == "gdraw":
            random.randint(0, 0xFFFFFFFF)               # the same draw RandState.mk() takes from the global generator
            events.append({"op": "gdraw"})
        elif k == "mk":
            snaps["u:" + op["name"]] = vsc.RandState.mkFromSeed(op["s"])
            events.append({"op": "seed", "o": "u:" + op["name"], "s": op["s"] * 1000})
        elif k == "restore_u":
            s.lookup(op["o"]).set_randstate(snaps["u:" + op["name"]])
            stated.add(op["o"])
            events.append({"op": "snap", "o": "u:" + op["name"], "name": "tmp"})
            events.append({"op": "restore", "o": op["o"], "name": "tmp"})
        elif k == "snap_u":
            if op["o"] not in stated:
                events.append({"op": "default", "o": op["o"]})
                stated.add(op["o"])
            snaps["u:" + op["name"]] = s.lookup(op["o"]).get_randstate()
            events.append({"op": "snap", "o": op["o"], "name": "tmp"})
            events.append({"op": "restore", "o": "u:" + op["name"], "name": "tmp"})
        elif k == "call":
            call = dict(op["call"])
            flags = {}
            if env.get("debug") and call["kind"] in ("method", "with"):
                flags["debug"] = 1
            if env.get("solve_fail_debug"):
                flags["solve_fail_debug"] = 1
            call["flags"] = flags
            o = call["roots"][0]
            stream = o
            if call.get("rs_name") is not None:
                # a module-level call that is handed a state the user holds: that state itself advances
                flags["randstate"] = snaps["u:" + call["rs_name"]]
                stream = "u:" + call["rs_name"]
            elif call["kind"] in ("method", "with") and o not in stated:
                # the first use of an object without a state derives one from the next draw of the global generator
                # (derived here, through get_randstate(), so that the call itself can be required to draw nothing from the global
                #  generator)
                s.lookup(o).get_randstate()
                events.append({"op": "default", "o": o})
                stated.add(o)
            if call.get("rs_seed") is not None:
                # a module-level vsc.randomize(obj, randstate=RandState(seed)): the stream of this call originates at that seed
                flags["randstate"] = vsc.RandState.mkFromSeed(call["rs_seed"])
                stream = call["stream"]
                events.append({"op": "seed", "o": stream, "s": call["rs_seed"] * 1000})
            # the call's input besides the random stream: the values of the non-random fields (previous values of
            # random fields are not an input - the result must not depend on them)
            pre = {k_: v_ for k_, v_ in proj(o).items() if k_ in s.W["scalars"] and not s.W["scalars"][k_]["declrand"]}
            glob[0] = 0
            for n_ in orig:
                setattr(random, n_, spy(n_))
            try:
                e = s.guarded(lambda: s._do_call(call))
            finally:
                for n_ in orig:
                    setattr(random, n_, orig[n_])
            # the call is described relative to its root object: instances of one class seeded alike replay one another
            rel = lambda d_: {"$" + k_[len(o):]: v_ for k_, v_ in d_.items()}
            cd = {k_: v_ for k_, v_ in op["call"].items() if k_ not in ("stream", "rs_name", "rs_seed")}
            cd["roots"] = ["$" if r_ == o else r_ for r_ in cd["roots"]]
            cd["owner"] = "$" if cd.get("owner") == o else cd.get("owner")
            pre, post_ = rel(pre), rel(proj(o))
            events.append({"op": "call", "o": stream, "desc": json.dumps(cd, sort_keys=True),
                           "pre": pre, "post": post_,
                           "exc": e, "glob": glob[0], "explicit": True})
        else:
            raise ValueError(k)
    sys.stdout = real_stdout
    json.dump(events, sys.stdout)


if __name__ == "__main__":
    main()
