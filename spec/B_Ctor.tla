------------------------------- MODULE B_Ctor -------------------------------
(***************************************************************************)
(* Mechanism-level model of the process-wide construction state (C16):     *)
(* vsc.impl.ctor (constraint_scope_stack, expr_l, srcinfo_mode_s) and        *)
(* vsc.impl.expr_mode (_expr_mode).  Every public operation is a fixed      *)
(* sequence of pushes, pops and calls into USER code; user code may raise   *)
(* at every such position.  A step record says what is pushed or popped and *)
(* `prot` lists the pops that the code guarantees on the exceptional path   *)
(* at that position (context managers and try/finally/except blocks),       *)
(* innermost first - transcribed from rand_obj.py (__init__,                *)
(* build_field_model, __enter__/__exit__), constraints.py (if_then ...),    *)
(* impl/expr_mode.py and randomizer.do_randomize.                           *)
(* Protected = TRUE is the code after the fix, FALSE the code before it     *)
(* (the scope and srcinfo entries of a construction were unprotected).      *)
(* Obligation: whenever no operation is in flight every stack is empty.     *)
(***************************************************************************)
EXTENDS Naturals, Sequences, FiniteSets, TLC
CONSTANTS Protected, MaxOps
VARIABLES stk, pc, prog, nops
vars == <<stk, pc, prog, nops>>
Stacks == {"scope", "expr_l", "srcinfo", "expr_mode", "override"}
Zero == [s \in Stacks |-> 0]

P(s) == [act |-> "push", s |-> s, prot |-> << >>]
Q(s) == [act |-> "pop", s |-> s, prot |-> << >>]
U(prot) == [act |-> "user", s |-> "", prot |-> prot]          \* user code runs here and may raise

\* object construction with one constraint block containing an if_then context manager and a foreach nested in its arm
Construct ==
  <<P("srcinfo"),                                                  \* randobj_interposer.__init__
    U(IF Protected THEN <<"srcinfo">> ELSE << >>),                 \* the user's __init__
    P("expr_mode"),                                                \* with expr_mode(): (context manager)
    P("scope"),                                                    \* push_constraint_scope(block)
    P("expr_l"),                                                   \* an expression statement leaves an entry
    U(IF Protected THEN <<"expr_l", "scope", "expr_mode", "srcinfo">> ELSE <<"expr_mode">>),   \* fo.c(self) - first statement
    P("scope"),                                                    \* with vsc.if_then(...): __enter__
    U(IF Protected THEN <<"scope", "expr_l", "scope", "expr_mode", "srcinfo">> ELSE <<"scope", "expr_mode">>),
    P("scope"),                                                    \* with vsc.foreach(...) nested in the arm: __enter__
    U(IF Protected THEN <<"scope", "scope", "expr_l", "scope", "expr_mode", "srcinfo">> ELSE <<"scope", "scope", "expr_mode">>),
    Q("scope"),                                                    \* foreach.__exit__
    Q("scope"),                                                    \* if_then.__exit__
    Q("expr_l"), Q("scope"),                                       \* pop_constraint_scope drains the expressions
    Q("expr_mode"), Q("srcinfo")>>
\* with obj.randomize_with() as it: <body> ; __exit__ solves
WithCall ==
  <<P("expr_mode"), P("srcinfo"), P("scope"),                      \* __enter__
    P("expr_l"),
    U(<<"expr_l", "scope", "srcinfo", "expr_mode">>),              \* the with-body: __exit__ runs on the exceptional path too
    Q("expr_l"), Q("scope"), Q("expr_mode"), Q("srcinfo"),         \* __exit__ prologue
    U(<< >>),                                                      \* pre_randomize callbacks (before any rewrite)
    P("override"),                                                 \* array / dist expansion rewrites the constraint tree
    Q("override"),                                                 \* rollback in the finally block of do_randomize
    U(<< >>)>>                                                     \* post_randomize callbacks
MethodCall == <<U(<< >>), P("override"), Q("override"), U(<< >>)>>
Programs == {Construct, WithCall, MethodCall}

Init == stk = Zero /\ pc = 0 /\ prog = << >> /\ nops = 0
Begin == /\ pc = 0 /\ nops < MaxOps /\ \E p \in Programs : prog' = p
         /\ pc' = 1 /\ nops' = nops + 1 /\ UNCHANGED stk
RECURSIVE Unwind(_, _, _)
Unwind(s, prot, i) == IF i > Len(prot) THEN s ELSE Unwind([s EXCEPT ![prot[i]] = @ - 1], prot, i + 1)
Step == /\ pc > 0 /\ pc <= Len(prog)
        /\ LET st == prog[pc] IN
           \/ /\ st.act = "push" /\ stk' = [stk EXCEPT ![st.s] = @ + 1] /\ pc' = pc + 1 /\ UNCHANGED <<prog, nops>>
           \/ /\ st.act = "pop" /\ stk' = [stk EXCEPT ![st.s] = @ - 1] /\ pc' = pc + 1 /\ UNCHANGED <<prog, nops>>
           \/ /\ st.act = "user" /\ UNCHANGED stk /\ pc' = pc + 1 /\ UNCHANGED <<prog, nops>>           \* returns normally
           \/ /\ st.act = "user" /\ stk' = Unwind(stk, st.prot, 1) /\ pc' = 0 /\ prog' = << >> /\ UNCHANGED nops   \* raises
End == /\ pc > Len(prog) /\ pc > 0 /\ pc' = 0 /\ prog' = << >> /\ UNCHANGED <<stk, nops>>
Next == Begin \/ Step \/ End
Spec == Init /\ [][Next]_vars

IdleBetweenCalls == pc = 0 => stk = Zero
NeverNegative == \A s \in Stacks : stk[s] >= 0
=============================================================================
