import sys, io, contextlib, itertools, collections, random, time
import vsc
from vsc.impl.coverage_registry import CoverageRegistry
def q(f):
    with contextlib.redirect_stdout(io.StringIO()): return f()
def values(ranges):
    s=set()
    for r in ranges:
        if isinstance(r,(list,tuple)): s.update(range(r[0],r[1]+1))
        else: s.add(r)
    return s
def partition(vals,n):
    vals=sorted(vals)
    if n is None or n>=len(vals): return [[v] for v in vals]
    per=len(vals)//n
    bins=[vals[i*per:(i+1)*per] for i in range(n)]
    bins[-1]=vals[(n-1)*per:]
    return bins
rnd=random.Random(int(sys.argv[1])); N=int(sys.argv[2]); W=4
classes=collections.Counter(); ex={}
for t in range(N):
    CoverageRegistry.clear()
    def rr():
        if rnd.random()<0.5: return rnd.randrange(16)
        a=rnd.randrange(16); b=rnd.randrange(a,16); return [a,b]
    kind=rnd.choice(["bin","array","arrayn","auto"])
    ranges=[rr() for _ in range(rnd.randint(1,3))]
    ign=[rr() for _ in range(rnd.randint(0,2))] if rnd.random()<0.4 else []
    n=rnd.randint(1,5)
    abm=rnd.choice([1,2,3,5,64])
    try:
        class CG(object):
            def __init__(self):
                self.with_sample(dict(a=vsc.bit_t(W)))
                kw={}
                if ign: kw["ignore_bins"]={"ig":vsc.bin(*ign)}
                if kind=="bin": kw["bins"]={"b":vsc.bin(*ranges)}
                elif kind=="array": kw["bins"]={"b":vsc.bin_array([],*ranges)}
                elif kind=="arrayn": kw["bins"]={"b":vsc.bin_array([n],*ranges)}
                else: kw["options"]=dict(auto_bin_max=abm)
                self.cp=vsc.coverpoint(self.a, **kw)
        T=vsc.covergroup(CG); cg=q(T)
    except Exception as e:
        key=("ctor-exc",kind,type(e).__name__); classes[key]+=1; ex.setdefault(key,(ranges,ign,n,abm,str(e)[:60])); continue
    cp=cg.get_model().coverpoint_l[0]
    excl=values(ign)
    if kind=="bin": exp=[sorted(values(ranges)-excl)]; exp=[b for b in exp if b]
    elif kind=="array": exp=partition(values(ranges)-excl,None)
    elif kind=="arrayn": exp=partition(values(ranges)-excl,n)
    else: exp=partition(set(range(16))-excl,abm)
    nb=cp.get_n_bins()
    # observe actual bin value sets by sampling each value once
    got=[[] for _ in range(nb)]
    ok=True
    for v in range(16):
        before=[cp.get_bin_hits(i) for i in range(nb)]
        try: q(lambda: cg.sample(v))
        except Exception as e:
            key=("sample-exc",kind,type(e).__name__); classes[key]+=1; ex.setdefault(key,(ranges,ign,n,abm,v,str(e)[:60])); ok=False; break
        after=[cp.get_bin_hits(i) for i in range(nb)]
        for i in range(nb):
            for _ in range(after[i]-before[i]): got[i].append(v)
    if not ok: continue
    if got!=exp:
        ov = any(isinstance(a,(list,tuple)) for a in ranges) and len(values(ranges)) != sum((r[1]-r[0]+1) if isinstance(r,(list,tuple)) else 1 for r in ranges)
        key=("bins-differ",kind,"overlap" if ov else "disjoint","ign" if ign else "noign")
        classes[key]+=1; ex.setdefault(key,(ranges,ign,n,abm,"got",got,"exp",exp))
print("shapes",N)
for k,c in classes.most_common(): print("  ",c,k,str(ex[k])[:300])
