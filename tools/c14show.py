import json,glob,sys
sys.path.insert(0,'/repo/src')
from harness.worlds import unbits
for f in glob.glob('/verif/out/violations/C14/*.json'):
    d=json.load(open(f)); k=d['key']
    ev=d['result']['events'][k['event']-1]
    def show(e):
        k=e['k']
        if k=='f': return e['p']
        if k=='lit': return str(unbits(e['bits'], e['s']))
        if k=='bin': return '(%s %s %s)'%(show(e['l']),e['op'],show(e['r']))
        if k=='in': return '%s %sin [%s]'%(show(e['e']), 'not ' if e['neg'] else '', ', '.join(show(i['e']) if i['k']=='v' else '%s..%s'%(show(i['lo']),show(i['hi'])) for i in e['items']))
        return k
    print(k['scenario'], k['clauses'], [show(s['e']) if s['k']=='e' else s['k'] for s in d['scenario']['world']['classes']['A']['blocks'][0]['body']])
    print('  fields', [(x['name'],x['w'],x['signed'],x['rand']) for x in d['scenario']['world']['classes']['A']['fields']])
    print('  pre', {p:unbits(v) for p,v in ev['pre']['v'].items()})
    print('  bounds', ev['bounds'], 'complete', ev['complete'], 'npaths', ev['npaths'])
    print('  marg a', [(m['v'],m['p']) for m in ev['marg'][0]], 'marg b', [(m['v'],m['p']) for m in ev['marg'][1]])
