import sys, io, contextlib, itertools, collections, random
sys.path.insert(0,'/verif/proto'); import btorshim
import vsc
from vsc.model.solve_failure import SolveFailure
from vsc.impl import ctor, expr_mode
def q(f):
    with contextlib.redirect_stdout(io.StringIO()): return f()
rnd=random.Random(11); bad=collections.Counter(); ex={}
W=3
def run(name, mk, check, n=25):
    ctor.test_setup(); expr_mode._expr_mode.clear()
    try: o=q(mk)
    except Exception as e: bad[(name,"ctor:"+type(e).__name__)]+=1; ex.setdefault((name,"ctor:"+type(e).__name__),str(e)[:100]); return
    for i in range(n):
        try: q(o.randomize)
        except SolveFailure: bad[(name,"fail")]+=1; continue
        except Exception as e: bad[(name,"exc:"+type(e).__name__)]+=1; ex.setdefault((name,"exc:"+type(e).__name__),str(e)[:100]); return
        l=list(o.l); sz=len(o.l)
        if sz!=o.l.size or len(l)!=sz or any(o.l[i]!=l[i] for i in range(sz)): bad[(name,"facade")]+=1
        r=check(o,l)
        if not r: bad[(name,"violated")]+=1; ex.setdefault((name,"violated"),(l, getattr(o,'k',None)))
    bad[(name,"runs")]+=1
for rs in (False,True):
    def cls(body, szc=None, signed=False):
        def init(self):
            self.l = vsc.randsz_list_t((vsc.int_t if signed else vsc.bit_t)(W)) if rs else vsc.rand_list_t((vsc.int_t if signed else vsc.bit_t)(W), 3)
            self.k = vsc.rand_bit_t(W)
        def blk(self):
            if rs: self.l.size.inside(vsc.rangelist((1,4)))
            body(self)
        return vsc.randobj(type("L",(object,),{"__init__":init,"blk":vsc.constraint(blk)}))
    tag="randsz" if rs else "fixed"
    def b1(s):
        with vsc.foreach(s.l) as it: it < s.k
    run(tag+" foreach it<k", cls(b1), lambda o,l: all(x<o.k for x in l))
    def b2(s):
        with vsc.foreach(s.l, idx=True) as i: s.l[i] == i+1
    run(tag+" l[i]==i+1", cls(b2), lambda o,l: all(l[i]==i+1 for i in range(len(l))))
    def b3(s):
        with vsc.foreach(s.l, idx=True) as i:
            with vsc.if_then(i > 0):
                s.l[i] > s.l[i-1]
    run(tag+" ascending", cls(b3), lambda o,l: all(l[i]>l[i-1] for i in range(1,len(l))))
    def b4(s): vsc.unique(s.l)
    run(tag+" unique", cls(b4), lambda o,l: len(set(l))==len(l))
    def b5(s): s.l.sum == 5
    run(tag+" sum==5", cls(b5), lambda o,l: sum(l)==5)
    def b6(s): s.l.sum == s.k
    run(tag+" sum==k", cls(b6), lambda o,l: sum(l)==o.k)
    def b7(s): s.k.inside(vsc.rangelist(s.l)) if False else (s.k in s.l)
    run(tag+" k in l", cls(b7), lambda o,l: o.k in l)
    def b8(s): s.l.sum < 0
    run(tag+" signed sum<0", cls(b8, signed=True), lambda o,l: sum(l)<0)
    def b9(s):
        s.l.size == s.k
    if rs: run(tag+" size==k", cls(b9), lambda o,l: len(l)==o.k)
    def b10(s):
        with vsc.foreach(s.l, it=True, idx=True) as (i,it): it == s.l.size - 1 - i if False else (it + i == 3)
    run(tag+" it+i==3", cls(b10), lambda o,l: all(l[i]+i==3 for i in range(len(l))))
for k,v in sorted(bad.items()): print(k,v, ex.get(k,""))
