#!/bin/bash
# usage: mut.sh <patch> <check ids...> ; prepares /tmp/selftest = repo HEAD + repo uncommitted changes + patch, runs quick checks
P=$1; shift
cd /tmp/selftest && git checkout -q --detach $(git -C /repo rev-parse HEAD) 2>/dev/null; git checkout -q -- . ; git clean -qfd src
git -C /repo diff | git apply 2>/dev/null
for f in $(git -C /repo ls-files --others --exclude-standard src); do mkdir -p $(dirname $f); cp /repo/$f $f; done
git apply $P || { echo "PATCH FAILED"; exit 3; }
cd /verif
for c in "$@"; do
  VERIF_REPO=/tmp/selftest /venv/bin/python -m harness.check $c --tier ${TIER:-quick} > /tmp/mut_out.log 2>&1
  echo "   $c exit=$? $(grep -v '^VIOLATION' /tmp/mut_out.log | tail -1)"
done
