------------------------------- MODULE B_Cells -------------------------------
(***************************************************************************)
(* Mechanism-level model of the mask arithmetic behind field storage (C18): *)
(* type_base.set_val (mask, then two's-complement re-interpretation for     *)
(* signed types) and type_base.__setitem__ (part-select and bit-select      *)
(* write by shift and mask), transcribed from src/vsc/types.py.             *)
(* Obligation B |= A: the integer the code stores equals Wrap(v, w) of      *)
(* TypeCells.tla, and a part-select write changes exactly the selected bits.*)
(***************************************************************************)
EXTENDS Integers, Sequences, FiniteSets, Bitwise, TLC
CONSTANTS MaxW
VARIABLES w, signed, cell, last
vars == <<w, signed, cell, last>>
Pow2(n) == 2 ^ n
\* Python's & on a possibly negative left operand with a non-negative mask = mathematical mod 2^k
Mask(v, k) == v % Pow2(k)

\* --- the code (B) ---
SetVal(v, ww, sg) == LET m == Mask(v, ww) IN IF sg /\ m >= Pow2(ww - 1) THEN m - Pow2(ww) ELSE m
Unsigned(c, ww) == Mask(c, ww)
PartWrite(c, ww, sg, hi, lo, val) ==
  LET cur == Unsigned(c, ww)                             \* int(get_val()) & bits, as an unsigned pattern
      msk == (Pow2(hi - lo + 1) - 1) * Pow2(lo)
      keep == cur - (cur & msk)                          \* curr & ~msk
      put  == ((val * Pow2(lo)) & msk)
  IN SetVal(keep + put, ww, sg)

\* --- the requirement (A) ---
InType(c, ww, sg) == IF sg THEN -Pow2(ww - 1) <= c /\ c < Pow2(ww - 1) ELSE 0 <= c /\ c < Pow2(ww)
Congruent(a, b, ww) == (a - b) % Pow2(ww) = 0
Bit(c, ww, i) == (Unsigned(c, ww) \div Pow2(i)) % 2

Init == w \in 1..MaxW /\ signed \in BOOLEAN /\ cell = 0 /\ last = [op |-> "init"]
Write == \E v \in (-Pow2(w + 1))..Pow2(w + 1) :
           /\ cell' = SetVal(v, w, signed) /\ last' = [op |-> "write", v |-> v, old |-> cell] /\ UNCHANGED <<w, signed>>
Part == \E hi \in 0..(w - 1) : \E lo \in 0..hi : \E v \in 0..(Pow2(hi - lo + 1) - 1) :
           /\ cell' = PartWrite(cell, w, signed, hi, lo, v)
           /\ last' = [op |-> "part", hi |-> hi, lo |-> lo, v |-> v, old |-> cell] /\ UNCHANGED <<w, signed>>
Next == Write \/ Part
Spec == Init /\ [][Next]_vars

AlwaysInType == InType(cell, w, signed)
WriteIsWrap  == last.op = "write" => Congruent(cell, last.v, w)
PartLocal    == last.op = "part" =>
                  \A i \in 0..(w - 1) :
                     Bit(cell, w, i) = IF i >= last.lo /\ i <= last.hi THEN (last.v \div Pow2(i - last.lo)) % 2 ELSE Bit(last.old, w, i)
=============================================================================
