-------------------------------- MODULE Cov --------------------------------
(***************************************************************************)
(* Declarative meaning of covergroup shapes (properties C10, C11, C12,    *)
(* C19).  Integers are small here (coverpoint types of at most 8 bits),   *)
(* so native TLC arithmetic is used.                                       *)
(*                                                                         *)
(* shape = [cls, cps: Seq(cp), xs: Seq(cross)]                              *)
(* cp    = [name, var, iff, lo, hi, kind ("explicit"|"auto"|"enum"),        *)
(*          bins: Seq([name, kind, n, ranges: Seq(<<lo,hi>>), pats: Seq(<<value,mask>>)]), *)
(*          ign, ill: Seq([name, ranges]), abm, enums: Seq(Int), atl, wt]   *)
(* cross = [name, cps: Seq(cp name), iff, atl, wt]                          *)
(***************************************************************************)
EXTENDS Integers, Sequences, FiniteSets, SequencesExt, FiniteSetsExt, Bitwise, TLC

SeqSet(s) == {s[i] : i \in 1..Len(s)}
Vals(ranges) == UNION {r[1]..r[2] : r \in SeqSet(ranges)}
Sorted(S) == SetToSortSeq(S, <)

\* consecutive equal-size bins, remainder in the last; one bin per value when n = 0 or n >= #values
Partition(vs, n) ==
  IF n <= 0 \/ n >= Len(vs) THEN [i \in 1..Len(vs) |-> {vs[i]}]
  ELSE LET per == Len(vs) \div n IN
       [i \in 1..n |-> {vs[j] : j \in ((i - 1) * per + 1)..(IF i = n THEN Len(vs) ELSE i * per)}]

\* wildcard patterns: v matches <<value, mask>> iff it agrees on every masked (non-wildcard) bit
WildMatch(v, pat) == (v & pat[2]) = (pat[1] & pat[2])
WildVals(pats, lo, hi) == {v \in lo..hi : \E p \in SeqSet(pats) : WildMatch(v, p)}

Excluded(cp) == UNION ({Vals(cp.ign[i].ranges) : i \in 1..Len(cp.ign)} \cup {Vals(cp.ill[i].ranges) : i \in 1..Len(cp.ill)})

\* the sequence of value sets (one per flat bin) contributed by one bin declaration
DeclBins(cp, b) ==
  LET ex == Excluded(cp) IN
  CASE b.kind = "bin"       -> LET vs == Vals(b.ranges) \ ex IN IF vs = {} THEN << >> ELSE <<vs>>
    [] b.kind = "array"     -> Partition(Sorted(Vals(b.ranges) \ ex), b.n)
    [] b.kind = "wild"      -> <<WildVals(b.pats, cp.lo, cp.hi)>>
    [] b.kind = "wildarray" -> Partition(Sorted(WildVals(b.pats, cp.lo, cp.hi)), b.n)

RECURSIVE FlatRec(_, _)
FlatRec(cp, i) == IF i > Len(cp.bins) THEN << >> ELSE DeclBins(cp, cp.bins[i]) \o FlatRec(cp, i + 1)

\* flat bins of a coverpoint: sequence of value sets, in declaration order
Bins(cp) ==
  CASE cp.kind = "explicit" -> FlatRec(cp, 1)
    [] cp.kind = "auto"     -> Partition(Sorted((cp.lo..cp.hi) \ Excluded(cp)), cp.abm)
    [] cp.kind = "enum"     -> LET vs == Sorted(SeqSet(cp.enums) \ Excluded(cp)) IN [i \in 1..Len(vs) |-> {vs[i]}]
IgnBins(cp) == [i \in 1..Len(cp.ign) |-> Vals(cp.ign[i].ranges)]
IllBins(cp) == [i \in 1..Len(cp.ill) |-> Vals(cp.ill[i].ranges)]

CpByName(shape, n) == shape.cps[CHOOSE i \in 1..Len(shape.cps) : shape.cps[i].name = n]

\* structure that separates covergroup types of one class (C12)
Structure(shape) ==
  [cls |-> shape.cls,
   cps |-> [i \in 1..Len(shape.cps) |-> <<shape.cps[i].name, Bins(shape.cps[i]), IgnBins(shape.cps[i]), IllBins(shape.cps[i])>>],
   xs  |-> [i \in 1..Len(shape.xs) |-> <<shape.xs[i].name, shape.xs[i].cps>>]]

\* number of cross bins and the row-major index of a combination (C11)
RECURSIVE ProdRec(_, _, _)
ProdRec(shape, names, i) == IF i > Len(names) THEN 1 ELSE Len(Bins(CpByName(shape, names[i]))) * ProdRec(shape, names, i + 1)
NCross(shape, x) == ProdRec(shape, x.cps, 1)
RECURSIVE RowMajor(_, _, _, _, _)
RowMajor(shape, names, idx, i, acc) ==
  IF i > Len(names) THEN acc + 1
  ELSE RowMajor(shape, names, idx, i + 1, acc * Len(Bins(CpByName(shape, names[i]))) + (idx[i] - 1))

\* coverage in units of 10^-4 percent-points: 100% = 1000000
Full == 1000000
NCovered(hits, atl) == Cardinality({i \in 1..Len(hits) : hits[i] >= atl})
CovOf(hits, atl) == IF Len(hits) = 0 THEN Full ELSE (Full * NCovered(hits, atl)) \div Len(hits)
=============================================================================
