"""C03 - a call changes only what is random in it; everything else acts as a constant."""
from .. import engine, fam_mc, fam_hist, fam_expr, fam_tree

LEVEL = "model_checking"


def run(tier, seed, limit=0):
    chk = engine.Check("C03", tier, seed)
    scs = fam_hist.family_H(tier, seed) + fam_expr.family_N(tier, seed, per_kind=3 if tier == "quick" else 20) + fam_hist.family_objlist_randmode(tier, seed)
    # three-level trees with random / non-random members and object lists: non-random members and everything below them
    scs += fam_tree.family_T(tier, seed, n=8 if tier == "quick" else 100, probes=True, tag="T03") + fam_tree.family_nonrand_member(tier, seed)
    mc_scs, sim_states = fam_mc.family_mc(tier, seed)          # TLC-generated behaviours of MC_VscRand, replayed
    scs = scs + mc_scs
    chk.extra_cov["tlc_generated_histories_replayed"] = len(mc_scs)
    chk.extra_cov["tlc_simulation_states"] = sim_states
    if limit:
        scs = scs[:limit]
    chk.run_scenarios(scs, "Trace_VscRand")
    chk.run_mc("MC_VscRand", {"MaxLevel": 4 if tier == "quick" else 6}, workers=12, label="A-level API machine on world W-flags")
    chk.run_mc("B_UsedRand", {"MaxLevel": 4 if tier == "quick" else 6}, label="is_used_rand mechanics |= UsedRand")
    return chk.finish(LEVEL, "histories over world W-mix (sets, rand_mode toggles, rangelist/list edits, 5 call kinds, probes) + family N + tree histories "
                      "(random / non-random members at three levels, object lists)",
                      ["TLC 1.8; BV/Expr reference semantics; world->DSL compiler"])
