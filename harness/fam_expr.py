"""Scenario families over the expression / statement grammar (DESIGN 4.1: families E and S).
Deterministic enumeration first (independent of the seed), then seeded random programs."""
import itertools
import random

from .worlds import F, B, E, lit, bits

ARITH = ["add", "sub", "mul", "div", "mod", "and", "or", "xor", "sll", "srl"]
RELS = ["eq", "ne", "lt", "le", "gt", "ge"]
TYPES = [(1, False), (2, False), (3, False), (4, False), (2, True), (3, True), (4, True)]


def fld(name, w, s, rand=True, init=0):
    return {"name": name, "kind": "scalar", "w": w, "signed": s, "rand": rand, "init": init}


def one_class_world(fields, body, extra_blocks=(), cls="A", pop=("o1",)):
    blocks = [{"name": "c1", "dynamic": False, "body": body}] + list(extra_blocks)
    return {"classes": {cls: {"base": "", "fields": fields, "blocks": blocks}},
            "population": [{"id": p, "cls": cls} for p in pop]}


def wcall(inline=(), root="o1", kind="with"):
    return {"kind": kind, "roots": [root], "owner": root, "inline": list(inline)}


def mcall(root="o1"):
    return {"kind": "method", "roots": [root], "owner": root, "inline": []}


def table_ops(fields, nonrand_vals, calls=2, probe_paths=None, root="o1"):
    """construct; for each setting of the non-random fields: a few calls then the full truth table"""
    ops = [{"op": "construct", "o": root}]
    rand_paths = probe_paths or ["%s.%s" % (root, f["name"]) for f in fields if f["rand"]]
    nr = [f for f in fields if not f["rand"]]
    settings = nonrand_vals if nr else [()]
    for st in settings:
        for f, v in zip(nr, st):
            ops.append({"op": "set", "p": "%s.%s" % (root, f["name"]), "v": bits(v, f["w"])})
        for _ in range(calls):
            ops.append({"op": "call", "call": mcall(root)})
        ops.append({"op": "probe", "call": wcall(root=root), "paths": rand_paths})
    return ops


def family_E(tier, seed):
    """x <op> y <rel> z over mixed widths/signedness; z a field, a non-random field or a literal"""
    rnd = random.Random(1234)           # fixed: deterministic core
    out = []
    shapes = ["ff_f", "ff_l", "fl_f", "fn_f", "ff_n"]
    combos = list(itertools.product(ARITH, RELS))
    n_types = 2 if tier == "quick" else 12
    for (op, rel) in combos:
        for t in range(n_types):
            ta, tb, tc = rnd.choice(TYPES), rnd.choice(TYPES), rnd.choice(TYPES)
            shape = shapes[(combos.index((op, rel)) + t) % len(shapes)]
            out.append(prog_E(op, rel, ta, tb, tc, shape, rnd))
    return out


def prog_E(op, rel, ta, tb, tc, shape, rnd):
    a, b = fld("a", *ta), fld("b", *tb)
    c = fld("c", *tc, rand=(shape[3] != "n" and shape[1] != "n"))
    litv = rnd.choice([-3, -1, 0, 1, 2, 3, 5, 7])
    if op in ("sll", "srl"):
        litv = rnd.choice([0, 1, 2, 3])
    x = F("a")
    y = {"f": F("b"), "l": lit(litv), "n": F("c")}[shape[1]]
    z = {"f": F("c") if shape[1] != "n" else F("b"), "l": lit(rnd.choice([-2, 0, 1, 3, 6])), "n": F("c")}[shape[3]]
    body = [E(B(rel, B(op, x, y), z))]
    fields = [a, b, c]
    world = one_class_world(fields, body)
    nrv = []
    if not c["rand"]:
        wv = 1 << c["w"]
        nrv = [(v,) for v in sorted({0, 1, wv - 1, wv // 2})][:3]
    sid = "E/%s/%s/%s/a%d%s_b%d%s_c%d%s" % (op, rel, shape, ta[0], "s" if ta[1] else "u", tb[0], "s" if tb[1] else "u",
                                             tc[0], "s" if tc[1] else "u")
    return {"id": sid, "world": world, "ops": table_ops(fields, nrv), "tags": tags_of(body, fields)}


def tags_of(body, fields):
    """grammar features of a program (used for quarantine of known findings and for coverage stats)"""
    tags = set()
    T = {f["name"]: f for f in fields if f["kind"] == "scalar"}

    def signed(e):
        k = e["k"]
        if k == "f":
            return T[e["p"]]["signed"] if e["p"] in T else False
        if k == "lit":
            return e["s"]
        if k == "bin":
            return signed(e["l"]) and signed(e["r"])
        if k == "not":
            return signed(e["e"])
        return False

    def nonrand(e):
        k = e["k"]
        if k == "f":
            return e["p"] in T and not T[e["p"]]["rand"]
        if k == "lit":
            return True
        if k == "bin":
            return nonrand(e["l"]) and nonrand(e["r"])
        if k == "not":
            return nonrand(e["e"])
        return False

    def has_nr_field(e):
        k = e["k"]
        if k == "f":
            return e["p"] in T and not T[e["p"]]["rand"]
        if k == "bin":
            return has_nr_field(e["l"]) or has_nr_field(e["r"])
        if k == "not":
            return has_nr_field(e["e"])
        return False

    def walk(e, top):
        k = e["k"]
        if k == "bin":
            tags.add("op:" + e["op"])
            if e["op"] in ("div", "mod") and signed(e["l"]) and signed(e["r"]):
                tags.add("signed_divmod")
            if top and e["op"] in RELS:
                for side in (e["l"], e["r"]):
                    if side["k"] == "bin" and nonrand(side) and has_nr_field(side):
                        tags.add("nonrand_arith_side")
            walk(e["l"], False)
            walk(e["r"], False)
        elif k == "not":
            tags.add("unary_not")
            walk(e["e"], False)
        elif k == "in":
            tags.add("in")
        elif k == "part":
            tags.add("part")

    def wst(s):
        k = s["k"]
        tags.add("stmt:" + k)
        if k == "e":
            walk(s["e"], True)
        elif k == "if":
            for arm in s["arms"]:
                walk(arm["c"], False)
                for b in arm["body"]:
                    wst(b)
            for b in s["els"]:
                wst(b)
        elif k == "imp":
            walk(s["c"], False)
            for b in s["body"]:
                wst(b)
    for s in body:
        wst(s)
    return sorted(tags)


# ------------------------------------------------------------------------------------------
# family S: one statement of each kind around small bodies
# ------------------------------------------------------------------------------------------
def rel_atom(rnd, names, lits=(-2, -1, 0, 1, 2, 3, 5)):
    l = F(rnd.choice(names))
    r = F(rnd.choice(names)) if rnd.random() < 0.6 else lit(rnd.choice(lits))
    return B(rnd.choice(RELS), l, r)


def item(rnd, names):
    def leaf():
        return F(rnd.choice(names)) if rnd.random() < 0.3 else lit(rnd.choice([0, 1, 2, 3, 4, 6]))
    if rnd.random() < 0.5:
        return {"k": "r", "lo": leaf(), "hi": leaf()}
    return {"k": "v", "e": leaf()}


def stmt_S(kind, rnd, names, T, depth=0):
    if kind == "rel":
        return E(rel_atom(rnd, names))
    if kind == "andor":
        return E(B(rnd.choice(["and", "or"]), rel_atom(rnd, names), rel_atom(rnd, names)))
    if kind == "notrel":
        return E({"k": "not", "e": rel_atom(rnd, names)})
    if kind == "if":
        n = rnd.randint(1, 3)
        arms = [{"c": rel_atom(rnd, names), "body": [stmt_S(rnd.choice(["rel", "in", "andor"]), rnd, names, T, 1)]}
                for _ in range(n)]
        els = [stmt_S("rel", rnd, names, T, 1)] if rnd.random() < 0.6 else []
        return {"k": "if", "arms": arms, "els": els}
    if kind == "ifchain":
        # a long if / else_if chain selected by one field, every arm constraining another field differently
        sel = rnd.choice(names)
        tgt = rnd.choice([n for n in names if n != sel] or names)
        n = rnd.randint(4, 5)
        arms = [{"c": B("eq", F(sel), lit(i)), "body": [E(B("eq", F(tgt), lit((i * 3 + 1) % 4)))]} for i in range(n)]
        els = [E(B("ne", F(tgt), lit(0)))] if rnd.random() < 0.6 else []
        return {"k": "if", "arms": arms, "els": els}
    if kind == "ifnest":
        inner = stmt_S("if", rnd, names, T, 1)
        return {"k": "if", "arms": [{"c": rel_atom(rnd, names), "body": [inner]}], "els": [stmt_S("rel", rnd, names, T, 1)]}
    if kind == "imp":
        return {"k": "imp", "c": rel_atom(rnd, names), "body": [stmt_S(rnd.choice(["rel", "in", "imp2"]), rnd, names, T, 1)]}
    if kind == "imp2":
        return {"k": "imp", "c": rel_atom(rnd, names), "body": [stmt_S("rel", rnd, names, T, 2)]}
    if kind == "in":
        return E({"k": "in", "e": F(rnd.choice(names)), "items": [item(rnd, names) for _ in range(rnd.randint(1, 3))],
                  "neg": rnd.random() < 0.35})
    if kind == "uniq":
        k = rnd.randint(2, min(3, len(names)))
        return {"k": "uniq", "args": [F(n) for n in rnd.sample(names, k)]}
    if kind == "part":
        f = rnd.choice([n for n in names if T[n][0] >= 2] or names)
        w = T[f][0]
        hi = rnd.randrange(w)
        lo = rnd.randint(0, hi)
        return E(B(rnd.choice(RELS), {"k": "part", "e": F(f), "hi": hi, "lo": lo}, lit(rnd.choice([0, 1, 2, 3]))))
    if kind == "bit":
        f = rnd.choice(names)
        i = rnd.randrange(T[f][0])
        return E(B(rnd.choice(["eq", "ne"]), {"k": "part", "e": F(f), "hi": i, "lo": i, "bit": True}, lit(rnd.choice([0, 1]))))
    if kind == "truthy":
        # a condition (or a whole statement) that is no relation: a multi-bit field or a bitwise / arithmetic expression - it
        # holds iff its value is not zero
        def nz():
            a, b = rnd.sample(names, 2)
            return rnd.choice([F(a), B("and", F(a), F(b)), B("xor", F(a), F(b)), B("and", F(a), lit(rnd.choice([1, 2, 3]))),
                               B("srl", F(a), lit(1)), B("sub", F(a), F(b))])
        form = rnd.choice(["if", "imp", "stmt", "if"])
        if form == "if":
            return {"k": "if", "arms": [{"c": nz(), "body": [stmt_S("rel", rnd, names, T, 1)]}],
                    "els": [stmt_S("rel", rnd, names, T, 1)] if rnd.random() < 0.7 else []}
        if form == "imp":
            return {"k": "imp", "c": nz(), "body": [stmt_S("rel", rnd, names, T, 1)]}
        e = nz()
        while e["k"] == "f":          # (a bare field written as a statement records nothing in the DSL: only expressions do)
            e = nz()
        return E(e)
    raise ValueError(kind)


S_KINDS = ["rel", "andor", "notrel", "if", "ifnest", "imp", "in", "uniq", "part", "bit", "ifchain", "truthy"]


def family_S(tier, seed, per_kind=None):
    rnd = random.Random(4321)
    out = []
    per_kind = per_kind or (4 if tier == "quick" else 40)
    for kind in S_KINDS:
        for t in range(per_kind):
            types = {n: rnd.choice(TYPES[1:]) for n in "abc"}
            nonrand_c = rnd.random() < 0.5
            fields = [fld("a", *types["a"]), fld("b", *types["b"]), fld("c", *types["c"], rand=not nonrand_c)]
            names = ["a", "b", "c"]
            body = [stmt_S(kind, rnd, names, types)]
            if rnd.random() < 0.4:
                body.append(stmt_S("rel", rnd, names, types))
            world = one_class_world(fields, body)
            nrv = []
            if nonrand_c:
                wv = 1 << types["c"][0]
                nrv = [(v,) for v in sorted({0, 1, wv - 1, wv // 2})][:3]
            out.append({"id": "S/%s/%d" % (kind, t), "world": world, "ops": table_ops(fields, nrv),
                        "tags": tags_of(body, fields)})
    return out


# ------------------------------------------------------------------------------------------
# family N: conditions / operands over non-random fields (constant folding, C02/C03/C14)
# ------------------------------------------------------------------------------------------
N_KINDS = ["if_nr", "rel_nr_arith", "nr_arith_rel", "in_nr_range", "imp_nr", "nr_only", "mixed_arith"]


def family_N(tier, seed, per_kind=None):
    rnd = random.Random(977)
    out = []
    per_kind = per_kind or (4 if tier == "quick" else 30)
    for kind in N_KINDS:
        for t in range(per_kind):
            ta, tb = rnd.choice(TYPES[1:]), rnd.choice(TYPES[1:])
            tc, td = rnd.choice([(2, False), (2, True), (3, False), (3, True)]), rnd.choice([(2, False), (2, True)])
            fields = [fld("a", *ta), fld("b", *tb), fld("c", *tc, rand=False), fld("d", *td, rand=False)]
            op = rnd.choice(["add", "sub", "mul", "and", "or", "xor", "sll", "srl"])
            rel = rnd.choice(RELS)
            lv = rnd.choice([0, 1, 2, 3])
            if kind == "if_nr":
                body = [{"k": "if", "arms": [{"c": B(rnd.choice(RELS), F("c"), F("d")), "body": [E(B(rel, F("a"), lit(lv)))]}],
                         "els": [E(B(rnd.choice(RELS), F("a"), F("b")))]}]
            elif kind == "rel_nr_arith":
                body = [E(B(rel, F("a"), B(op, F("c"), rnd.choice([F("d"), lit(lv)]))))]
            elif kind == "nr_arith_rel":
                body = [E(B(rel, B(op, F("c"), rnd.choice([F("d"), lit(lv)])), F("a")))]
            elif kind == "in_nr_range":
                body = [E({"k": "in", "e": F("a"), "items": [{"k": "r", "lo": F("c"), "hi": F("d")}, {"k": "v", "e": lit(lv)}],
                           "neg": rnd.random() < 0.3})]
            elif kind == "imp_nr":
                body = [{"k": "imp", "c": B(rnd.choice(RELS), F("c"), lit(lv)), "body": [E(B(rel, F("a"), F("b")))]}]
            elif kind == "nr_only":
                body = [E(B(rel, F("c"), F("d"))), E(B("le", F("a"), F("b")))]
            else:
                body = [E(B(rel, B(op, F("a"), F("c")), B(rnd.choice(["add", "sub"]), F("b"), F("d"))))]
            world = one_class_world(fields, body)
            cv = sorted({0, 1, (1 << tc[0]) - 1, 1 << (tc[0] - 1)})
            dv = sorted({0, 1, (1 << td[0]) - 1})
            nrv = [(x, y) for x in cv for y in dv]
            rnd.shuffle(nrv)
            out.append({"id": "N/%s/%d" % (kind, t), "world": world, "ops": table_ops(fields, nrv[:4], calls=1),
                        "tags": tags_of(body, fields)})
    return out


# ------------------------------------------------------------------------------------------
# family R: seeded random programs (VERIF_SEED), 2-4 fields, 1-3 statements of any kind
# ------------------------------------------------------------------------------------------
def arith_tree(rnd, names, depth):
    if depth == 0 or rnd.random() < 0.35:
        return F(rnd.choice(names)) if rnd.random() < 0.75 else lit(rnd.choice([0, 1, 2, 3, 5]))
    op = rnd.choice(["add", "sub", "mul", "and", "or", "xor", "sll", "srl", "add", "sub"])
    l = arith_tree(rnd, names, depth - 1)
    r = arith_tree(rnd, names, depth - 1)
    if l["k"] == "lit" and r["k"] == "lit":
        l = F(rnd.choice(names))
    return B(op, l, r)


def family_R(tier, seed, n=None):
    rnd = random.Random(seed * 7919 + 17)
    n = n or (40 if tier == "quick" else 600)
    out = []
    for t in range(n):
        nf = rnd.randint(2, 4)
        names = list("abcd")[:nf]
        budget = 9
        types, fields = {}, []
        for nm in names:
            w, s = rnd.choice(TYPES)
            w = max(1 if not s else 2, min(w, budget - (nf - len(fields) - 1) * 1))
            budget -= w
            types[nm] = (w, s)
            fields.append(fld(nm, w, s, rand=(rnd.random() < 0.75 or nm == "a")))
        body = []
        for _ in range(rnd.randint(1, 3)):
            kind = rnd.choice(S_KINDS + ["arith", "arith"])
            if kind == "arith":
                body.append(E(B(rnd.choice(RELS), arith_tree(rnd, names, 2), arith_tree(rnd, names, 1))))
            elif kind == "uniq" and nf < 2:
                continue
            else:
                body.append(stmt_S(kind, rnd, names, types))
        world = one_class_world(fields, body)
        nr = [f for f in fields if not f["rand"]]
        nrv = []
        for _ in range(3):
            nrv.append(tuple(rnd.randrange(1 << f["w"]) for f in nr))
        out.append({"id": "R/%d/%d" % (seed, t), "world": world, "ops": table_ops(fields, nrv if nr else [], calls=1),
                    "tags": tags_of(body, fields)})
    return out


# ------------------------------------------------------------------------------------------
# family D: duals - partial pins (one field pinned to each of its values, the others left to the
# solver) so that both "ok => witness" and "SolveFailure => no extension exists" are exercised
# ------------------------------------------------------------------------------------------
def family_D(tier, seed, per_kind=None):
    rnd = random.Random(8675)
    out = []
    per_kind = per_kind or (2 if tier == "quick" else 16)
    for kind in S_KINDS:
        for t in range(per_kind):
            types = {n: rnd.choice(TYPES[1:5] + TYPES[4:6]) for n in "abc"}
            fields = [fld("a", *types["a"]), fld("b", *types["b"]), fld("c", *types["c"], rand=rnd.random() < 0.6)]
            names = ["a", "b", "c"]
            body = [stmt_S(kind, rnd, names, types), stmt_S("rel", rnd, names, types)]
            world = one_class_world(fields, body)
            ops = [{"op": "construct", "o": "o1"}]
            if not fields[2]["rand"]:
                ops.append({"op": "set", "p": "o1.c", "v": bits(rnd.randrange(1 << types["c"][0]), types["c"][0])})
            pin = rnd.choice(["a", "b"])
            w, s = types[pin]
            for v in range(1 << w):
                sv = v - (1 << w) if (s and v >= (1 << (w - 1))) else v
                ops.append({"op": "call", "call": wcall([E(B("eq", F(pin), lit(sv)))])})
            ops.append({"op": "call", "call": wcall([E(B("ne", F("a"), F("a")))])})
            ops.append({"op": "call", "call": wcall([E(B("and", B("lt", F("a"), F("b")), B("lt", F("b"), F("a"))))])})
            ops.append({"op": "call", "call": mcall()})
            out.append({"id": "D/%s/%d" % (kind, t), "world": world, "ops": ops, "tags": tags_of(body, fields)})
    return out


# ------------------------------------------------------------------------------------------
# family K: statements that mention NO field (literal-only relations, true or false) at every place a statement can stand:
# class block, under a condition, in a with-block, in a dynamic block, in a disabled block.  A constant-false statement
# that is in force makes the call unsatisfiable; elsewhere it changes nothing.
# ------------------------------------------------------------------------------------------
def family_K(tier, seed):
    out = []
    rnd = random.Random(9191 + (seed if tier != "quick" else 0))
    n = 16 if tier == "quick" else 96
    for t in range(n):
        truth = (t % 2 == 0)
        x, y = rnd.sample([0, 1, 2, 3, 5], 2)
        lo_, hi_ = min(x, y), max(x, y)
        op = rnd.choice(["lt", "le", "ne"]) if truth else rnd.choice(["gt", "ge", "eq"])
        const = E(B(op, lit(lo_), lit(hi_)))
        place = ["top", "cond_true", "cond_false", "with", "dyn", "disabled", "top_first", "else"][(t // 2) % 8]
        fields = [fld("a", 2, False), fld("b", 2, rnd.random() < 0.5), fld("k", 2, False, rand=False, init=rnd.randrange(4))]
        rel = E(B(rnd.choice(["le", "ne", "ge"]), F("a"), F("b")))
        body, extra, inline, pre = [rel], [], [], []
        kv = rnd.randrange(4)
        if place == "top":
            body = [rel, const]
        elif place == "top_first":
            body = [const, rel]
        elif place == "cond_true":
            body = [rel, {"k": "imp", "c": B("eq", F("k"), lit(kv)), "body": [const]}]
        elif place == "cond_false":
            body = [rel, {"k": "imp", "c": B("ne", F("k"), lit(kv)), "body": [const]}]
        elif place == "else":
            body = [rel, {"k": "if", "arms": [{"c": B("lt", F("a"), lit(2)), "body": [E(B("ne", F("b"), lit(1)))]}], "els": [const]}]
        elif place == "with":
            inline = [const]
        elif place == "dyn":
            extra = [{"name": "dk", "dynamic": True, "body": [const]}]
            inline = [E({"k": "dyn", "o": "", "b": "dk"})]
        else:
            extra = [{"name": "c9", "dynamic": False, "body": [const]}]
        world = one_class_world(fields, body, extra)
        ops = [{"op": "construct", "o": "o1"}, {"op": "set", "p": "o1.k", "v": bits(kv, 2)}]
        if place == "disabled":
            ops.append({"op": "cmode", "o": "o1", "b": "c9", "en": False})
        ops += [{"op": "call", "call": wcall(inline)}, {"op": "call", "call": mcall()},
                {"op": "probe", "call": wcall(inline), "paths": ["o1.a", "o1.b"]}]
        if place == "disabled":
            ops += [{"op": "cmode", "o": "o1", "b": "c9", "en": True}, {"op": "call", "call": mcall()}]
        out.append({"id": "K/%s/%s/%d" % (place, "T" if truth else "F", t), "world": world, "ops": ops, "tags": ["const_stmt"]})
    return out


# ------------------------------------------------------------------------------------------
# family G: degenerate ranges.  A range whose low end exceeds its high end holds no value (as in SystemVerilog): alone it
# makes the membership unsatisfiable, next to other items it contributes nothing; the member is related to other variables
# so that the empty domain travels through the bound propagation.
# ------------------------------------------------------------------------------------------
def family_G(tier, seed):
    out = []
    n = 8 if tier == "quick" else 64
    for t in range(n):
        rnd = random.Random(9393 + t + (0 if t < n // 2 else 1000 * seed))
        sa, sc = rnd.random() < 0.5, rnd.random() < 0.5
        fields = [fld("a", 2 + (t % 2), sa), fld("b", 2, False), fld("c", 3, sc, rand=t % 4 != 3, init=rnd.randrange(4))]
        lo_, hi_ = rnd.choice([(2, 1), (3, 0), (1, 0), (3, 2)])
        items = [{"k": "r", "lo": lit(lo_), "hi": lit(hi_)}]
        if t % 2 == 1:
            items.insert(rnd.randrange(2), {"k": "v", "e": lit(rnd.randrange(3))})       # ... plus one real value
        if t % 8 >= 6:
            items = [{"k": "r", "lo": F("b"), "hi": lit(0)}]                                  # empty unless b == 0
        body = [E({"k": "in", "e": F("a"), "items": items, "neg": t % 8 == 5}),
                E(B(rnd.choice(["eq", "le", "lt", "ge", "ne"]), F("a"), F("c")))]
        if rnd.random() < 0.5:
            body.append(E(B(rnd.choice(["le", "ge"]), F("c"), F("b"))))
        world = one_class_world(fields, body)
        paths = ["o1." + f["name"] for f in fields if f["rand"]]
        ops = [{"op": "construct", "o": "o1"}, {"op": "call", "call": mcall()}, {"op": "call", "call": wcall([E(B("le", F("b"), lit(1)))])},
               {"op": "probe", "call": wcall(), "paths": paths}]
        out.append({"id": "G/%d" % t, "world": world, "ops": ops, "tags": ["empty_range"]})
    return out


# ------------------------------------------------------------------------------------------
# family Q: enum fields (class members and free-standing, declared random or not)
# ------------------------------------------------------------------------------------------
def efld(name, values, rand=True, init=None):
    return {"name": name, "kind": "enum", "values": values, "rand": rand, "init": values[0] if init is None else init}


def family_Q(tier, seed, n=None):
    out = []
    n = n or (10 if tier == "quick" else 120)
    for t in range(n):
        rnd = random.Random(3131 * 100003 + t + (0 if t < n // 2 else seed * 7))
        vals = rnd.choice([[0, 1, 2, 3], [10, 20, 30, 77], [-2, 5, 9], [1, 2, 4, 8, 16]])
        fields = [efld("e", vals), efld("f", vals, rand=rnd.random() < 0.6, init=rnd.choice(vals)), fld("a", 2, False)]
        body = [rnd.choice([E(B("ne", F("e"), lit(rnd.choice(vals)))), E(B("ne", F("e"), F("f"))),
                            E({"k": "in", "e": F("e"), "items": [{"k": "v", "e": lit(v)} for v in rnd.sample(vals, 2)], "neg": rnd.random() < 0.5}),
                            {"k": "if", "arms": [{"c": B("eq", F("e"), lit(vals[0])), "body": [E(B("eq", F("a"), lit(1)))]}],
                             "els": [E(B("ne", F("a"), lit(1)))]}])]
        world = one_class_world(fields, body)
        fe = {"id": "fe", "kind": "enum", "values": vals, "rand": rnd.random() < 0.5, "init": rnd.choice(vals)}
        fg = {"id": "fg", "kind": "enum", "values": vals, "rand": True, "init": vals[0]}
        world["population"] += [fe, fg]
        ops = [{"op": "construct", "o": "o1"}, {"op": "construct", "o": "fe"}, {"op": "construct", "o": "fg"}]
        ops += [{"op": "call", "call": mcall()}, {"op": "call", "call": mcall()},
                {"op": "probe", "call": wcall(), "paths": ["o1.e", "o1.a"] + (["o1.f"] if fields[1]["rand"] else [])}]
        # free-standing calls: the roots are random for the call whatever their declaration
        ne = rnd.choice(vals)
        ops += [{"op": "call", "call": {"kind": "free_with", "roots": ["fe", "fg"], "owner": "",
                                        "inline": [E(B("ne", F("fe"), lit(ne))), E(B("ne", F("fe"), F("fg")))]}}
                for _ in range(6)]
        ops += [{"op": "call", "call": {"kind": "free", "roots": ["fe"], "owner": "", "inline": []}} for _ in range(2)]
        ops += [{"op": "call", "call": {"kind": "free_with", "roots": ["fg"], "owner": "", "inline": [E(B("ne", F("fg"), F("fe")))]}}
                for _ in range(3)]
        out.append({"id": "Q/%d" % t, "world": world, "ops": ops, "tags": ["enum"]})
    return out


# ------------------------------------------------------------------------------------------
# family Wd: wide fields (up to 64 bits): relations against boundary literals and between fields of different widths
# and signedness; rows = real solutions, their single-field mutations over boundary values, random rows
# ------------------------------------------------------------------------------------------
def wlit(v, w, s):
    return lit(v, w, s)


def family_Wd(tier, seed, n=None):
    out = []
    n = n or (14 if tier == "quick" else 200)
    widths = [13, 16, 31, 32, 33, 48, 63, 64]
    for t in range(n):
        core = t < n // 2
        rnd = random.Random((6464 if core else 6500 + seed) * 100003 + t)
        wa, wb = rnd.choice(widths), rnd.choice(widths)
        sa, sb = rnd.random() < 0.4, rnd.random() < 0.4
        fields = [fld("a", wa, sa), fld("b", wb, sb), fld("c", rnd.choice([8, 16, 32]), False, rand=False, init=rnd.randrange(200))]
        kind = rnd.choice(["rel_lit", "rel_ff", "arith", "shift", "mask", "in"])

        def blit(w, s):
            """a literal near a boundary of a w-bit type"""
            cands = [0, 1, (1 << (w - 1)) - 1, (1 << (w - 1)), (1 << w) - 1, (1 << min(w, 32)) - 1, 1 << 31, (1 << 32) - 1]
            v = rnd.choice(cands) + rnd.choice([-1, 0, 0, 1])
            v = max(0, min(v, (1 << w) - 1))
            return v
        if kind == "rel_lit":
            v = blit(wa, sa)
            body = [E(B(rnd.choice(RELS), F("a"), wlit(v, wa, False)))]
            hints = {"o1.a": [v - 1, v, v + 1]}
        elif kind == "rel_ff":
            body = [E(B(rnd.choice(RELS), F("a"), F("b")))]
            hints = {}
        elif kind == "arith":
            v = blit(max(wa, wb), False)
            body = [E(B(rnd.choice(["eq", "le", "ge"]), B(rnd.choice(["add", "sub", "xor", "or"]), F("a"), F("b")), wlit(v, max(wa, wb), False)))]
            hints = {"o1.a": [v, v >> 1], "o1.b": [v, 0, 1]}
        elif kind == "shift":
            k = rnd.randrange(1, min(wa, 40))
            v = blit(wa, False)
            body = [E(B(rnd.choice(["eq", "ne", "lt"]), B(rnd.choice(["sll", "srl"]), F("a"), lit(k)), wlit(v, wa, False)))]
            hints = {"o1.a": [v >> k, (v << k) & ((1 << wa) - 1), v]}
        elif kind == "mask":
            m = rnd.getrandbits(wa) | 1
            v = rnd.getrandbits(wa) & m
            body = [E(B("eq", B("and", F("a"), wlit(m, wa, False)), wlit(v, wa, False)))]
            hints = {"o1.a": [v, v | (~m & ((1 << wa) - 1)), v ^ 1]}
        else:
            lo = blit(wa, False)
            hi = min((1 << wa) - 1, lo + rnd.choice([0, 1, 5, 1 << 20]))
            body = [E({"k": "in", "e": F("a"), "items": [{"k": "r", "lo": wlit(lo, wa, False), "hi": wlit(hi, wa, False)},
                                                          {"k": "v", "e": F("c")}], "neg": rnd.random() < 0.3})]
            hints = {"o1.a": [lo - 1, lo, hi, hi + 1]}
        world = one_class_world(fields, body)
        ops = [{"op": "construct", "o": "o1"}, {"op": "call", "call": mcall()}, {"op": "call", "call": mcall()},
               {"op": "probe", "call": wcall(), "paths": ["o1.a", "o1.b"], "mode": "around", "nsol": 3, "cap": 120, "hints": hints},
               {"op": "probe", "call": wcall(), "paths": ["o1.a", "o1.b"], "cap": 60, "hints": hints}]
        out.append({"id": "Wd/%s/%s/%d" % (kind, "core" if core else "s%d" % seed, t), "world": world, "ops": ops, "tags": ["wide"]})
    return out
