import sys, io, contextlib, itertools, collections, random, traceback, time
sys.path.insert(0,'/verif/proto'); import btorshim
import vsc
from vsc.model.solve_failure import SolveFailure
from vsc.impl import ctor, expr_mode
exec(open('survey.py').read().split("# ---------- build real class")[0])
# statements: ("e",expr) | ("if",[(cond,[stmts])...], else_stmts|None) | ("imp",cond,[stmts]) | ("in",expr,[items]) item: expr | (lo,hi) | ("uniq",[fields]) | ("ps",field,hi,lo,rel,expr)
def hs(s,env,T):
    k=s[0]
    if k=="e": return holds(s[1],env,T)
    if k=="if":
        for c,body in s[1]:
            if holds(c,env,T): return all(hs(b,env,T) for b in body)
        return True if s[2] is None else all(hs(b,env,T) for b in s[2])
    if k=="imp": return (not holds(s[1],env,T)) or all(hs(b,env,T) for b in s[2])
    if k in("in","nin"):
        r=False
        for it in s[2]:
            if it[0]=="rng": r = r or (holds(("bin","ge",s[1],it[1]),env,T) and holds(("bin","le",s[1],it[2]),env,T))
            else: r = r or holds(("bin","eq",s[1],it),env,T)
        return r if k=="in" else (not r)
    if k=="uniq":
        vs=[s[1][i] for i in range(len(s[1]))]
        return all(holds(("bin","ne",vs[i],vs[j]),env,T) for i in range(len(vs)) for j in range(i+1,len(vs)))
    if k=="ps":
        f,hi,lo,rel,rhs=s[1:]
        v=(env[f] & M(T[f][0]))>>lo & M(hi-lo+1)
        # partselect: unsigned, width hi-lo+1
        T2=dict(T); T2["__ps"]=(hi-lo+1,False); env2=dict(env); env2["__ps"]=v
        return holds(("bin",rel,("f","__ps"),rhs),env2,T2)
PY={"eq":lambda a,b:a==b,"ne":lambda a,b:a!=b,"lt":lambda a,b:a<b,"le":lambda a,b:a<=b,"gt":lambda a,b:a>b,"ge":lambda a,b:a>=b,
 "add":lambda a,b:a+b,"sub":lambda a,b:a-b,"mul":lambda a,b:a*b,"and":lambda a,b:a&b,"or":lambda a,b:a|b,"xor":lambda a,b:a^b}
def emit(e,o):
    k=e[0]
    if k=="f": return getattr(o,e[1])
    if k=="lit": return e[1]
    l=emit(e[2],o)
    if isinstance(l,int): l=vsc.signed(l,32)
    return PY[e[1]](l,emit(e[3],o))
def emits(s,o):
    k=s[0]
    if k=="e": emit(s[1],o)
    elif k=="if":
        for i,(c,body) in enumerate(s[1]):
            with (vsc.if_then if i==0 else vsc.else_if)(emit(c,o)):
                for b in body: emits(b,o)
        if s[2] is not None:
            with vsc.else_then:
                for b in s[2]: emits(b,o)
    elif k=="imp":
        with vsc.implies(emit(s[1],o)):
            for b in s[2]: emits(b,o)
    elif k in("in","nin"):
        items=[]
        for it in s[2]:
            items.append(vsc.rng(emit(it[1],o),emit(it[2],o)) if it[0]=="rng" else emit(it,o))
        rl=vsc.rangelist(*items)
        tgt=emit(s[1],o)
        if k=="in": tgt.inside(rl)
        else: tgt.not_inside(rl)
    elif k=="uniq": vsc.unique(*[emit(x,o) for x in s[1]])
    elif k=="ps":
        f,hi,lo,rel,rhs=s[1:]
        PY[rel](getattr(o,f)[hi:lo], emit(rhs,o))
def mk(T,stmts):
    def init(self):
        for n,(w,s) in T.items(): setattr(self,n,(vsc.rand_int_t if s else vsc.rand_bit_t)(w))
    def body(self):
        for s in stmts: emits(s,self)
    return vsc.randobj(type("W",(object,),{"__init__":init,"blk":vsc.constraint(body)}))
def table(T,stmts):
    names=sorted(T); res={}
    ctor.test_setup(); expr_mode._expr_mode.clear()
    try: o=mk(T,stmts)()
    except Exception as e:
        return {"ctor":"exc:%s:%s"%(type(e).__name__,str(e)[:80])}
    for vals in itertools.product(*[range(1<<T[n][0]) for n in names]):
        try:
            with contextlib.redirect_stdout(io.StringIO()):
                with o.randomize_with() as it:
                    for n,v in zip(names,vals): getattr(it,n) == (sx(v,T[n][0]) if T[n][1] else v)
            r="ok"
        except SolveFailure: r="fail"
        except Exception as e:
            tb=traceback.extract_tb(e.__traceback__); fr=[f for f in tb if "/repo/src" in f.filename]
            r="exc:%s@%s:%s"%(type(e).__name__, fr[-1].filename.split("/")[-1] if fr else "?", fr[-1].name if fr else "?")
            ctor.test_setup(); expr_mode._expr_mode.clear()
        res[vals]=r
    return res
rnd=random.Random(int(sys.argv[1])); N=int(sys.argv[2])
classes=collections.Counter(); examples={}; rows=0; t0=time.time()
def leaf(): return ("f",rnd.choice("abc")) if rnd.random()<0.7 else ("lit",rnd.choice([-3,-1,0,1,2,5,7]))
def fld(): return ("f",rnd.choice("abc"))
def rel(): return ("bin",rnd.choice(sorted(REL)),fld(),leaf())
def stmt(d=0):
    r=rnd.random()
    if r<0.25 or d>1: return ("e",rel())
    if r<0.45:
        n=rnd.randint(1,3)
        return ("if",[(rel(),[stmt(d+1)]) for _ in range(n)], [stmt(d+1)] if rnd.random()<0.5 else None)
    if r<0.6: return ("imp",rel(),[stmt(d+1)])
    if r<0.8:
        items=[]
        for _ in range(rnd.randint(1,3)):
            items.append(("rng",leaf(),leaf()) if rnd.random()<0.5 else leaf())
        return (rnd.choice(["in","in","nin"]),fld(),items)
    if r<0.9: return ("uniq",[("f",x) for x in rnd.sample("abc",rnd.randint(2,3))])
    return None
for i in range(N):
    T={x:(rnd.choice([2,3]),rnd.random()<0.5) for x in "abc"}
    stmts=[]
    while not stmts:
        s=stmt()
        if s is None:
            f=rnd.choice("abc"); w=T[f][0]; hi=rnd.randrange(w); lo=rnd.randint(0,hi)
            s=("ps",f,hi,lo,rnd.choice(sorted(REL)),leaf())
        stmts.append(s)
    if rnd.random()<0.4: stmts.append(("e",rel()))
    names=sorted(T); tab=table(T,stmts)
    for vals,r in tab.items():
        rows+=1
        if vals=="ctor": key=("ctor",r)
        else:
            env=dict(zip(names,vals))
            exp="ok" if all(hs(s,env,T) for s in stmts) else "fail"
            if r==exp: continue
            key=(r if r.startswith("exc") else "%s-expected-%s"%(r,exp), stmts[0][0])
        classes[key]+=1; examples.setdefault(key,(stmts,T,vals))
print("programs",N,"rows",rows,"time %.1f"%(time.time()-t0))
for k,c in classes.most_common(): print("  ",c,k,str(examples[k])[:400])
