import sys, io, contextlib
sys.path.insert(0,'/tmp/shim'); import btorshim
import vsc
from vsc.model.solve_failure import SolveFailure
@vsc.randobj
class Sub:
    def __init__(self):
        self.x = vsc.rand_bit_t(2)
    @vsc.constraint
    def sc(self): self.x != 3
@vsc.randobj
class Top:
    def __init__(self):
        self.s1 = vsc.rand_attr(Sub()); self.s2 = vsc.attr(Sub())
        self.l = vsc.rand_list_t(vsc.bit_t(2), 2)
        self.ol = vsc.rand_list_t(vsc.rand_attr(Sub()))
        for i in range(2): self.ol.append(vsc.rand_attr(Sub()))
        self.y = vsc.rand_bit_t(2)
    @vsc.constraint
    def tc(self):
        self.s1.x < self.y
        with vsc.foreach(self.l, idx=True) as i:
            self.l[i] != self.y
        self.ol[1].x == self.l[0]
t=Top()
def pin(vals):
    try:
        with contextlib.redirect_stdout(io.StringIO()):
            with t.randomize_with() as it:
                it.s1.x == vals[0]; it.y == vals[1]; it.l[0] == vals[2]; it.l[1]==vals[3]; it.ol[0].x==vals[4]; it.ol[1].x==vals[5]
        return "ok"
    except SolveFailure: return "fail"
    except Exception as e: return "exc:"+type(e).__name__+":"+str(e)[:60]
import itertools
bad=0; n=0
for vals in itertools.product(range(4), repeat=6):
    exp = vals[0]!=3 and vals[4]!=3 and vals[5]!=3 and vals[0]<vals[1] and vals[2]!=vals[1] and vals[3]!=vals[1] and vals[5]==vals[2]
    r=pin(vals); n+=1
    if (r=="ok")!=exp:
        bad+=1
        if bad<5: print("MISMATCH", vals, r, exp)
print(n,"rows; mismatches",bad, "s2.x", t.s2.x)
