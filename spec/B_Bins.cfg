CONSTANT MaxV = 5
CONSTANT MaxR = 3
SPECIFICATION Spec
INVARIANT CompactKeepsValues
INVARIANT CompactNormalForm
INVARIANT IntersectExact
CHECK_DEADLOCK FALSE
