-------------------------- MODULE B_RandState_sim ---------------------------
(***************************************************************************)
(* spec -> code for random states: B_RandState extended with the operation *)
(* skeleton of each behaviour.  In simulation mode every behaviour that    *)
(* reaches the requested depth is printed as JSON and replayed into the    *)
(* library by harness/fam_mc.py (family_mc_stab) in several processes; the *)
(* recorded trace is validated by Trace_Stab against RandStability.        *)
(***************************************************************************)
EXTENDS B_RandState, Json
CONSTANT MaxLevel
VARIABLE hist

SimInit == Init /\ hist = << >>
Log(r) == hist' = Append(hist, r)
SimNext == \/ \E s \in Seeds : SeedGlobal(s) /\ Log([op |-> "seed_global", s |-> s])
           \/ Noise /\ Log([op |-> "gdraw"])
           \/ \E n \in Names, s \in Seeds : Mk(n, s) /\ Log([op |-> "mk", name |-> n, s |-> s])
           \/ \E o \in Objs, n \in Names : Restore(o, n) /\ Log([op |-> "restore_u", o |-> o, name |-> n])
           \/ \E o \in Objs, n \in Names : Snap(o, n) /\ Log([op |-> "snap_u", o |-> o, name |-> n])
           \/ \E o \in Objs : Call(o) /\ Log([op |-> "call", o |-> o])
           \/ \E n \in Names : FreeCall(n) /\ Log([op |-> "freecall", name |-> n])
SimSpec == SimInit /\ [][SimNext]_<<vars, hist>>

EmitAtDepth == IF Len(hist) = MaxLevel - 1 THEN PrintT(<<"HIST", ToJson(hist)>>) ELSE TRUE
=============================================================================
