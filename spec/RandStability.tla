--------------------------- MODULE RandStability ---------------------------
(***************************************************************************)
(* Requirement-level model of random stability (property C09).             *)
(*                                                                         *)
(* A scenario is executed several times, each time in a fresh process with *)
(* a different environment (hash seed, interleaved unrelated activity,     *)
(* diagnostic settings).  The specification treats the library as a        *)
(* deterministic function of the abstract random stream of an object and   *)
(* of what has been asked of it since that stream was fixed:               *)
(*     key = <<class, stream origin, history of calls since the origin>>   *)
(* `memo` remembers the first result observed for every key - across runs  *)
(* and, through snapshots, within a run - and every later observation of   *)
(* the same key must be identical.                                         *)
(*                                                                         *)
(* stream[o] = [org: origin, hist: Seq(call record)]                        *)
(*   origin  = <<"seed", s>>            explicit RandState from seed s      *)
(*           | <<"global", g, n>>       default state: n-th draw after      *)
(*                                      random.seed(g)                      *)
(* snap[name] = a stream value (get_randstate returns an independent copy)  *)
(***************************************************************************)
EXTENDS Naturals, Sequences, FiniteSets, TLC

Failed(c) == {n \in DOMAIN c : ~c[n]}
EmptyState == [memo |-> << >>, stream |-> << >>, snap |-> << >>, gseed |-> 0, gdraws |-> 0, run |-> 0]

Key(W, S, ev) == <<W.cls[ev.o], S.stream[ev.o].org, S.stream[ev.o].hist, ev.desc, ev.pre>>
Result(ev) == <<ev.exc, ev.post>>

Guard(W, S, ev) ==
  CASE ev.op = "run_begin"   -> TRUE
    [] ev.op = "seed_global" -> TRUE
    [] ev.op = "seed"        -> TRUE
    [] ev.op = "default"     -> TRUE
    [] ev.op = "call"        -> ev.o \in DOMAIN S.stream
    [] ev.op = "snap"        -> ev.o \in DOMAIN S.stream
    [] ev.op = "restore"     -> ev.name \in DOMAIN S.snap
    [] ev.op = "noise"       -> TRUE
    [] ev.op = "gdraw"       -> TRUE
    [] OTHER -> FALSE

Effect(W, S, ev) ==
  CASE ev.op = "run_begin"   -> [S EXCEPT !.stream = << >>, !.snap = << >>, !.gseed = 0, !.gdraws = 0, !.run = @ + 1]
    [] ev.op = "seed_global" -> [S EXCEPT !.gseed = ev.s, !.gdraws = 0]
    \* set_randstate(RandState.mkFromSeed(s)): the object's stream now originates at seed s
    [] ev.op = "seed"        -> [S EXCEPT !.stream = (ev.o :> [org |-> <<"seed", ev.s>>, hist |-> << >>]) @@ @]
    \* first use without an explicit state: the state is derived from the next draw of the global generator
    [] ev.op = "default"     -> [S EXCEPT !.stream = (ev.o :> [org |-> <<"global", S.gseed, S.gdraws>>, hist |-> << >>]) @@ @,
                                          !.gdraws = @ + 1]
    [] ev.op = "call"        -> [S EXCEPT !.memo = (Key(W, S, ev) :> Result(ev)) @@ @,
                                          !.stream[ev.o].hist = Append(@, <<ev.desc, ev.pre, Result(ev)>>)]
    [] ev.op = "snap"        -> [S EXCEPT !.snap = (ev.name :> S.stream[ev.o]) @@ @]      \* independent copy, object unaffected
    [] ev.op = "restore"     -> [S EXCEPT !.stream = (ev.o :> S.snap[ev.name]) @@ @]       \* argument copied, snapshot reusable
    [] ev.op = "noise"       -> S                                                          \* unrelated activity
    [] ev.op = "gdraw"       -> [S EXCEPT !.gdraws = @ + 1]                                \* the user draws from the global generator

Clauses(W, S, ev) ==
  IF ~Guard(W, S, ev) THEN [ known_event |-> FALSE ]
  ELSE
  [ no_other_exception |-> ev.op = "call" => ev.exc \in {"none", "SolveFailure"},
    \* the heart of C09: same class, same stream origin, same history  =>  same result
    stable_result      |-> ev.op = "call" =>
                             (Key(W, S, ev) \in DOMAIN S.memo => S.memo[Key(W, S, ev)] = Result(ev)),
    no_global_random   |-> ev.op = "call" => ev.glob = 0 ]
=============================================================================
