"""C18 scenario family: widths x signedness x integer values x access paths."""
import random


def vals_for(w, exhaustive):
    if exhaustive:
        return list(range(-(1 << (w + 1)), (1 << (w + 1)) + 1))
    edge = set()
    for k in (w - 1, w, w + 1, 31, 32, 63, 64):
        if k < 0:
            continue
        for d in (-1, 0, 1):
            edge.add((1 << k) + d)
            edge.add(-(1 << k) + d)
    edge |= {0, 1, -1, 2, -2}
    return sorted(edge)


def scalar_scn(sid, w, signed, where, rand, vs, hows, init=0):
    f = {"name": "x", "kind": "scalar", "w": w, "signed": signed, "rand": rand, "init": init, "where": where}
    ops = []
    for i, v in enumerate(vs):
        ops.append({"op": "write", "p": "x", "how": hows[i % len(hows)], "v": v})
    return {"id": sid, "fields": [f], "ops": ops}


def family_cells(tier, seed):
    out = []
    rnd = random.Random(1818 + seed)
    maxw_ex = 5 if tier == "quick" else 10
    chunk = 6
    # (1) exhaustive writes for small widths, each write path
    for w in range(1, maxw_ex + 1):
        for signed in (False, True):
            vs = vals_for(w, True)
            if tier == "quick" and w > 3:
                vs = vs[::3] + [vs[-1]]
            for where, hows in (("obj", ["attr", "set_val"]), ("free", ["set_val", "val"])):
                for c in range(0, len(vs), chunk):
                    out.append(scalar_scn("cells/w%d%s/%s/%d" % (w, "s" if signed else "u", where, c), w, signed, where,
                                          rand=(c // chunk) % 2 == 0, vs=vs[c:c + chunk], hows=hows))
    # (2) boundary values for wide widths
    wide = [8, 16, 31, 32, 33, 63, 64] if tier == "quick" else list(range(6, 65))
    for w in wide:
        for signed in (False, True):
            vs = vals_for(w, False)
            rnd.shuffle(vs)
            if tier == "quick":
                vs = vs[:12]
            for where, hows in (("obj", ["attr", "set_val"]), ("free", ["set_val", "val"])):
                for c in range(0, len(vs), chunk):
                    out.append(scalar_scn("cells/W%d%s/%s/%d" % (w, "s" if signed else "u", where, c), w, signed, where,
                                          rand=True, vs=vs[c:c + chunk], hows=hows))
    # (2b) the standard-width aliases (uint8_t ... rand_int64_t): boundary values, initial values, part selects, randomize
    for w in (8, 16, 32, 64):
        for signed in (False, True):
            vs = vals_for(w, False)
            random.Random(1820 + w).shuffle(vs)
            for where, hows in (("obj", ["attr", "set_val"]), ("free", ["set_val", "val"])):
                for ci, iv in enumerate((0, -1, (1 << w) + 5) if tier == "quick" else (0, -1, (1 << w) + 5, 1 << (w - 1), -(1 << (w - 1)) - 1)):
                    sc = scalar_scn("cells/std%d%s/%s/%d" % (w, "s" if signed else "u", where, ci), w, signed, where,
                                    rand=ci % 2 == 0, vs=vs[ci * 5:ci * 5 + 5], hows=hows, init=iv)
                    sc["fields"][0]["std"] = True
                    sc["ops"] += [{"op": "part_read", "p": "x", "hi": w - 1, "lo": w - 4}, {"op": "part_write", "p": "x", "hi": w - 1, "lo": w - 3, "v": 5 + ci},
                                  {"op": "part_read", "p": "x", "hi": w - 1, "lo": 0}]
                    if where == "obj":
                        sc["ops"] += [{"op": "randomize"}, {"op": "randomize"}]
                    out.append(sc)
    # (3) constructor initial values
    for w in ([1, 2, 4, 8] if tier == "quick" else [1, 2, 3, 4, 5, 8, 16, 32, 64]):
        for signed in (False, True):
            for iv in sorted({0, 1, -1, (1 << (w - 1)), (1 << w) - 1, (1 << w), (1 << w) + 1, -(1 << (w - 1)), -(1 << w) - 1}):
                for where in ("obj", "free"):
                    out.append(scalar_scn("cells/init/w%d%s/%s/%d" % (w, "s" if signed else "u", where, iv), w, signed, where,
                                          rand=False, vs=[], hows=["attr"], init=iv))
    # (4) part-select reads and writes, all bounds
    for w in ([1, 2, 3, 4] if tier == "quick" else [1, 2, 3, 4, 5, 6, 8, 16]):
        for signed in (False,):
            for hi in range(w):
                for lo in range(hi + 1):
                    n = hi - lo + 1
                    ops = []
                    bases = sorted({0, (1 << w) - 1, rnd.randrange(1 << w)})
                    for base in bases:
                        # also values wider than the selection and negative ones: still only the selected bits change
                        for v in sorted({0, (1 << n) - 1, rnd.randrange(1 << n), (1 << n) + rnd.randrange(1 << n), -1 - rnd.randrange(3)}):
                            ops.append({"op": "write", "p": "x", "how": "set_val", "v": base})
                            ops.append({"op": "part_read", "p": "x", "hi": hi, "lo": lo, "bit": hi == lo and base % 2 == 0})
                            ops.append({"op": "part_write", "p": "x", "hi": hi, "lo": lo, "v": v, "bit": hi == lo and v % 2 == 0})
                            ops.append({"op": "part_read", "p": "x", "hi": hi, "lo": lo})
                    for where in ("free", "obj"):
                        f = {"name": "x", "kind": "scalar", "w": w, "signed": signed, "rand": True, "init": 0, "where": where}
                        for c in range(0, len(ops), 4):
                            out.append({"id": "cells/part/w%d/%d_%d/%s/%d" % (w, hi, lo, where, c), "fields": [f], "ops": ops[c:c + 4]})
    # (5) lists: append / extend / setitem / assign / init
    for w in ([1, 3, 8] if tier == "quick" else [1, 2, 3, 4, 8, 16, 32, 64]):
        for signed in (False, True):
            vs = vals_for(w, w <= 3)
            rnd.shuffle(vs)
            vs = vs[:10] if tier == "quick" else vs[:40]
            f = {"name": "l", "kind": "list", "w": w, "signed": signed, "rand": False, "init": vs[:2]}
            for c in range(0, len(vs), 5):
                ch = vs[c:c + 5] + [0] * 5
                ops = [{"op": "list", "kind": "l_append", "p": "l", "vs": [ch[0]]},
                       {"op": "list", "kind": "l_extend", "p": "l", "vs": [ch[1], ch[2]]},
                       {"op": "list", "kind": "l_setitem", "p": "l", "i": 1, "vs": [ch[3]]},
                       {"op": "list", "kind": "l_assign", "p": "l", "vs": [ch[4], ch[0]]},
                       {"op": "list", "kind": "l_clear", "p": "l"},
                       {"op": "list", "kind": "l_append", "p": "l", "vs": [ch[2]]}]
                out.append({"id": "cells/list/w%d%s/%d" % (w, "s" if signed else "u", c), "fields": [f], "ops": ops})
    # (7) values left by randomize(): every read path agrees, also for negative elements of signed lists
    for w in ([2, 4, 8] if tier == "quick" else [1, 2, 3, 4, 8, 16, 32, 64]):
        for t in range(2 if tier == "quick" else 6):
            fields = [{"name": "s", "kind": "scalar", "w": w, "signed": True, "rand": True, "init": 0, "where": "obj"},
                      {"name": "u", "kind": "scalar", "w": w, "signed": False, "rand": True, "init": 0, "where": "obj"},
                      {"name": "k", "kind": "scalar", "w": w, "signed": True, "rand": False, "init": -1, "where": "obj"},
                      {"name": "ls", "kind": "list", "w": w, "signed": True, "rand": True, "init": [0, 0, 0, 0]},
                      {"name": "lu", "kind": "list", "w": w, "signed": False, "rand": True, "init": [0, 0, 0]}]
            ops = [{"op": "randomize"} for _ in range(5)] + [{"op": "list", "kind": "l_setitem", "p": "ls", "i": 1, "vs": [-1]},
                                                              {"op": "randomize"}, {"op": "randomize"}]
            out.append({"id": "cells/rand/w%d/%d" % (w, t), "fields": fields, "ops": ops})
    # (6) enum fields
    for vals in ([0, 1, 2], [-1, 5, 7], [3, 1 << 20, -(1 << 20)]):
        f = {"name": "e", "kind": "enum", "values": vals, "rand": True, "init": vals[1]}
        ops = [{"op": "write", "p": "e", "how": h, "v": v} for v in vals for h in ("attr", "set_val")]
        out.append({"id": "cells/enum/%d" % vals[1], "fields": [f], "ops": ops})
    return out
