#!/bin/bash
# usage: adopt2.sh <srcdir with patch.diff demo.py notes.txt> <PID> <k in seeded/> [checks...]
# confirms the demonstration on a scratch worktree of /repo HEAD (exit 0 clean, non-zero with the change), copies the change to
# /verif/seeded/<PID>_m<k>/ and runs the quick check(s) against the changed worktree.  The worktree is removed at the end.
SRC=$1; PID=$2; K=$3; shift 3; CHECKS=${@:-$PID}
WT=/tmp/adopt_wt_$PID$K; DST=/verif/seeded/${PID}_m$K
git -C /repo worktree remove --force $WT 2>/dev/null
git -C /repo worktree add -q --detach $WT HEAD || exit 2
PYTHONPATH=$WT/src timeout 300 /venv/bin/python $SRC/demo.py > /tmp/demo_clean_$PID$K.log 2>&1; C=$?
(cd $WT && git apply $SRC/patch.diff) || { echo "$PID m$K PATCH FAILED"; git -C /repo worktree remove --force $WT; exit 3; }
PYTHONPATH=$WT/src timeout 300 /venv/bin/python $SRC/demo.py > /tmp/demo_mut_$PID$K.log 2>&1; M=$?
echo "$PID m$K demo clean=$C mutant=$M"
if [ $C -eq 0 ] && [ $M -ne 0 ]; then
  mkdir -p $DST; cp $SRC/patch.diff $SRC/demo.py $SRC/notes.txt $DST/ 2>/dev/null
  for c in $CHECKS; do
    (cd /verif && VERIF_REPO=$WT /venv/bin/python -m harness.check $c --tier quick > /tmp/adopt_$PID${K}_$c.log 2>&1); rc=$?
    echo "   $c exit=$rc $(grep -c '^VIOLATION' /tmp/adopt_$PID${K}_$c.log) violations; $(grep -v '^VIOLATION' /tmp/adopt_$PID${K}_$c.log | tail -1)"
  done
fi
git -C /repo worktree remove --force $WT
