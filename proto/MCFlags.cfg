CONSTANT MaxLevel = 8
SPECIFICATION Spec
VIEW View
CONSTRAINT Bound
INVARIANT NonRandFrozenInv
CHECK_DEADLOCK FALSE
