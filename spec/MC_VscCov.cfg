CONSTANT MaxInst = 2
CONSTANT MaxHits = 2
CONSTANT AtL = 2
CONSTANT W1 = 2
CONSTANT W2 = 1
SPECIFICATION Spec
CONSTRAINT Bound
INVARIANT CovInRange
INVARIANT FullIffAllCovered
INVARIANT TypeDominates
INVARIANT TypesSeparate
INVARIANT CrossBounded
INVARIANT IgnoredNeverCounts
PROPERTY Monotone
PROPERTY OnlyOwnInstance
PROPERTY OneHitPerSample
CHECK_DEADLOCK FALSE
