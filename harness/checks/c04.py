"""C04 - list constraints hold on exactly the list the user sees."""
from .. import engine, fam_list, fam_mc

LEVEL = "model_checking"


def run(tier, seed, limit=0):
    chk = engine.Check("C04", tier, seed)
    scs = fam_list.family_fixed(tier, seed) + fam_list.family_randsz(tier, seed) + fam_list.family_objlist(tier, seed)
    scs += fam_list.family_objlist_randsz(tier, seed) + fam_list.family_randsz_nested(tier, seed) + fam_list.family_uniqvec(tier, seed)
    mc_scs, sim_states = fam_mc.family_mc_list(tier, seed)          # TLC-generated behaviours of MC_VscList, replayed
    scs = scs + mc_scs
    chk.extra_cov["tlc_generated_histories_replayed"] = len(mc_scs)
    chk.extra_cov["tlc_simulation_states"] = sim_states
    if limit:
        scs = scs[:limit]
    chk.run_scenarios(scs, "Trace_VscRand")
    # the API machine on lists, every history of edits / toggles / calls on two objects up to the level bound
    chk.run_mc("MC_VscList", {"MaxLevel": 5 if tier == "quick" else 6}, workers=12, timeout=3000, label="A-level API machine on world W-lists")
    return chk.finish(LEVEL, "fixed-size lists (sizes 0..3): foreach over element / index / both, index arithmetic under a guard, sum, "
                      "unique, membership, literal indices, with exhaustive truth tables over (scalars, elements) before and after "
                      "append/extend/assign/clear/setitem; random-size lists with bounded size: every size pinned in turn (SolveFailure "
                      "iff no (size, elements) candidate exists, decided by TLC), list edits after calls; foreach over object lists; random-size "
                      "object lists (populated by the user, size pinned down and up again: bodies and views on the exposed prefix); "
                      "every call logs len/size/index/iteration views which must describe one sequence",
                      ["TLC 1.8; Expr.tla list semantics; world->DSL compiler"])
