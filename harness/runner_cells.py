"""C18 driver: writes and reads field values through every public access path and records what
was read.  The runner only drives and records; TypeCells.tla (via TLC) judges.

scenario = {id, fields: [{name, kind: scalar|enum|list, w, signed, rand, init, where: obj|free}], ops: [...]}
integers travel as two's complement bit lists wide enough to hold them (never JSON numbers >= 2^31)."""
import contextlib
import enum
import io
import traceback

import vsc
from vsc.impl import ctor

from .worlds import bits, unbits, enc
from .runner import exc_name, reset_globals


def ibits(v, w):
    """two's complement of v at a width that holds it and is at least w+1"""
    ww = max(w + 1, v.bit_length() + 2)
    return bits(v, ww)


class CellSession:
    def __init__(self, scn):
        self.scn = scn
        self.fields = scn["fields"]
        self.obj = None
        self.free = {}
        self.enums = {}
        self.events = []

    def world(self):
        W = {"cells": {}, "lists": {}}
        for f in self.fields:
            if f["kind"] == "list":
                W["lists"][f["name"]] = {"w": f["w"], "s": f["signed"], "rand": bool(f.get("rand")),
                                         "init": [ibits(v, f["w"]) for v in f.get("init", [])]}
            elif f["kind"] == "enum":
                W["cells"][f["name"]] = {"w": 32, "s": True, "enum": [bits(v, 32) for v in f["values"]], "rand": bool(f.get("rand")),
                                         "init": ibits(f.get("init", f["values"][0]), 32)}
            else:
                W["cells"][f["name"]] = {"w": f["w"], "s": f["signed"], "enum": [], "rand": bool(f.get("rand")) and f.get("where", "obj") == "obj",
                                         "init": ibits(f.get("init", 0), f["w"])}
        if not W["lists"]:
            W["lists"] = {}
        return W

    def mk(self, f):
        k = f["kind"]
        if k == "scalar" and f.get("std"):
            # the standard-width aliases of data_types.rst: uint8_t ... rand_int64_t
            t = getattr(vsc, "%s%sint%d_t" % ("rand_" if f.get("rand") else "", "" if f["signed"] else "u", f["w"]))
            return t(i=f.get("init", 0))
        if k == "scalar":
            t = {(True, True): vsc.rand_int_t, (True, False): vsc.rand_bit_t, (False, True): vsc.int_t,
                 (False, False): vsc.bit_t}[(bool(f.get("rand")), f["signed"])]
            return t(f["w"], i=f.get("init", 0))
        if k == "enum":
            et = enum.IntEnum("E_" + f["name"], {("v%d" % v).replace("-", "m"): v for v in f["values"]})
            self.enums[f["name"]] = et
            return (vsc.rand_enum_t if f.get("rand") else vsc.enum_t)(et, i=et(f.get("init", f["values"][0])))
        if k == "list":
            et = (vsc.int_t if f["signed"] else vsc.bit_t)(f["w"])
            init = list(f.get("init", []))
            return vsc.list_t(et, is_rand=bool(f.get("rand")), init=init if init else None)
        raise ValueError(k)

    def build(self):
        objf = [f for f in self.fields if f.get("where", "obj") == "obj"]
        sess = self

        def init(self):
            for f in objf:
                setattr(self, f["name"], sess.mk(f))
        T = vsc.randobj(type("Cells", (object,), {"__init__": init}))
        self.obj = T()
        for f in self.fields:
            if f.get("where") == "free":
                o = self.mk(f)
                o.get_model()
                self.free[f["name"]] = o

    def fld(self, name):
        return [f for f in self.fields if f["name"] == name][0]

    def handle(self, name):
        """the type_base / list_t object of a field"""
        f = self.fld(name)
        if f.get("where") == "free":
            return self.free[name]
        with vsc.raw_mode():
            return getattr(self.obj, name)

    # ------------------------------------------------------------------ reads
    def read_views(self, f):
        name = f["name"]
        w, s = (32, True) if f["kind"] == "enum" else (f["w"], f["signed"])
        out = {}

        def rec(view, fn):
            try:
                out[view] = enc(int(fn()), w, s)
            except Exception as e:      # a read path that raises is reported as a value outside any type
                out[view] = [7, 7, 7]
        h = self.handle(name)
        if f.get("where") == "free":
            rec("get_val", lambda: h.get_val())
            rec("val", lambda: h.val)
        else:
            rec("attr", lambda: getattr(self.obj, name))
            rec("get_val", lambda: h.get_val())
            if f["kind"] != "enum":
                rec("val", lambda: h.val)
        return out

    def list_views(self, f):
        lst = getattr(self.obj, f["name"])
        w, s = f["w"], f["signed"]
        d = {}
        try:
            d["len"] = len(lst)
            d["size"] = int(lst.size)
            d["index"] = [enc(int(lst[i]), w, s) for i in range(len(lst))]
            d["iter"] = [enc(int(x), w, s) for x in lst]
        except Exception:
            d = {"len": -1, "size": -1, "index": [], "iter": []}
        return d

    def snapshot(self, ev):
        ev["reads"] = {f["name"]: self.read_views(f) for f in self.fields if f["kind"] != "list"}
        ev["lreads"] = {f["name"]: self.list_views(f) for f in self.fields if f["kind"] == "list"}
        return ev

    def guarded(self, fn):
        try:
            with contextlib.redirect_stdout(io.StringIO()):
                fn()
            return "none"
        except Exception as e:
            return exc_name(e)

    # ------------------------------------------------------------------ ops
    def run(self):
        reset_globals()
        e = self.guarded(self.build)
        if e != "none":
            self.events.append({"op": "init", "exc": e, "reads": {}, "lreads": {}})
            return self.events
        self.events.append(self.snapshot({"op": "init", "exc": "none"}))
        for op in self.scn["ops"]:
            getattr(self, "op_" + op["op"])(op)
        return self.events

    def pyval(self, f, v):
        if f["kind"] == "enum":
            return self.enums[f["name"]](v)
        return v

    def op_write(self, op):
        f = self.fld(op["p"])
        v = self.pyval(f, op["v"])
        how = op["how"]

        def do():
            if how == "attr":
                setattr(self.obj, f["name"], v)
            elif how == "set_val":
                self.handle(f["name"]).set_val(v)
            elif how == "val":
                self.handle(f["name"]).val = v
            else:
                raise ValueError(how)
        e = self.guarded(do)
        self.events.append(self.snapshot({"op": "write", "p": op["p"], "how": how, "v": ibits(op["v"], 32 if f["kind"] == "enum" else f["w"]),
                                          "exc": e}))

    def op_randomize(self, op):
        e = self.guarded(lambda: self.obj.randomize())
        self.events.append(self.snapshot({"op": "randomize", "exc": e}))

    def op_part_write(self, op):
        f = self.fld(op["p"])
        h = self.handle(f["name"])

        def do():
            if op.get("bit"):
                h[op["hi"]] = op["v"]
            else:
                h[op["hi"]:op["lo"]] = op["v"]
        e = self.guarded(do)
        self.events.append(self.snapshot({"op": "part_write", "p": op["p"], "hi": op["hi"], "lo": op["lo"],
                                          "v": ibits(op["v"], op["hi"] - op["lo"] + 1), "exc": e}))

    def op_part_read(self, op):
        f = self.fld(op["p"])
        h = self.handle(f["name"])
        got = [None]

        def do():
            got[0] = h[op["hi"]] if op.get("bit") else h[op["hi"]:op["lo"]]
        e = self.guarded(do)
        n = op["hi"] - op["lo"] + 1
        g = enc(int(got[0]), n, False) if got[0] is not None else [7, 7, 7]
        self.events.append(self.snapshot({"op": "part_read", "p": op["p"], "hi": op["hi"], "lo": op["lo"], "got": g, "exc": e}))

    def op_list(self, op):
        f = self.fld(op["p"])
        vals = op.get("vs", [])

        def do():
            lst = getattr(self.obj, f["name"])
            k = op["kind"]
            if k == "l_append":
                lst.append(vals[0])
            elif k == "l_extend":
                lst.extend(vals)
            elif k == "l_clear":
                lst.clear()
            elif k == "l_setitem":
                lst[op["i"]] = vals[0]
            elif k == "l_assign":
                setattr(self.obj, f["name"], vals)
        e = self.guarded(do)
        self.events.append(self.snapshot({"op": op["kind"], "p": op["p"], "i": op.get("i", 0),
                                          "vs": [ibits(v, f["w"]) for v in vals], "exc": e}))


def run_scenario(scn, seed=0):
    import random as _random
    import zlib
    _random.seed(zlib.crc32(scn["id"].encode()) ^ 0x5eed)     # Python's global generator seeds every default RandState
    s = CellSession(scn)
    W = s.world()
    try:
        return {"id": scn["id"], "world": W, "events": s.run()}
    except Exception as e:
        return {"id": scn["id"], "world": W, "events": s.events,
                "harness_error": "%s: %s\n%s" % (type(e).__name__, e, traceback.format_exc())}
