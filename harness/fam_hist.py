"""History families (DESIGN 6: C03, C06, C07, C08): worlds with objects, sub-objects, flags,
rangelists and lists, driven by operation sequences."""
import random

from .worlds import F, B, E, lit, bits
from .fam_expr import fld, wcall, mcall


def IN(e, items, neg=False):
    return E({"k": "in", "e": e, "items": items, "neg": neg})


def world_mix():
    sub = {"base": "", "fields": [fld("x", 2, False), fld("y", 2, False, rand=False, init=1)],
           "blocks": [{"name": "sc", "dynamic": False, "body": [E(B("ne", F("x"), F("y")))]}]}
    top = {"base": "", "fields": [
        fld("a", 2, False), fld("b", 2, False), fld("k", 2, False, rand=False, init=1),
        {"name": "s1", "kind": "obj", "cls": "Sub", "rand": True},
        {"name": "s2", "kind": "obj", "cls": "Sub", "rand": False},
        {"name": "rl", "kind": "rangelist", "items": [[0, 2]]},
        {"name": "nl", "kind": "list", "w": 2, "signed": False, "rand": False, "init": [1, 2, 3], "cap": 6}],
        "blocks": [
            {"name": "c1", "dynamic": False, "body": [E(B("le", F("a"), F("b")))]},
            {"name": "c2", "dynamic": False, "body": [E(B("ne", F("a"), F("k")))]},
            {"name": "c3", "dynamic": False, "body": [IN(F("b"), [{"k": "rl", "p": "rl"}])]},
            {"name": "c4", "dynamic": False, "body": [E(B("le", F("s1.x"), B("add", F("a"), 1)))]},
            {"name": "c5", "dynamic": False, "body": [E(B("ne", F("b"), F("s2.x")))]},
            {"name": "c6", "dynamic": False, "body": [IN(F("a"), [{"k": "l", "p": "nl"}])]},
        ]}
    return {"classes": {"Sub": sub, "Top": top},
            "population": [{"id": "o1", "cls": "Top"}, {"id": "o2", "cls": "Top"},
                           {"id": "fa", "kind": "scalar", "w": 2, "signed": False, "rand": True},
                           {"id": "fb", "kind": "scalar", "w": 2, "signed": False, "rand": True}]}


MIX_SCALARS = ["a", "b", "k", "s1.x", "s1.y", "s2.x", "s2.y"]
MIX_PROBE = ["a", "b", "s1.x"]


def hist_mix(rnd, sid, steps=10, objs=("o1", "o2")):
    world = world_mix()
    ops = [{"op": "construct", "o": o} for o in objs] + [{"op": "construct", "o": "fa"}, {"op": "construct", "o": "fb"}]
    inl = [
        [E(B("eq", F("a"), F("k")))],
        [E(B("lt", F("s1.x"), F("s2.x")))],
        [E(B("ne", F("a"), F("a")))],               # contradiction: the call must fail
        [E(B("gt", F("b"), 1)), E(B("eq", F("s1.x"), F("s1.y")))],
        [],
    ]
    for i in range(steps):
        o = rnd.choice(objs)
        r = rnd.random()
        if r < 0.22:
            p = rnd.choice(MIX_SCALARS)
            ops.append({"op": "set", "p": "%s.%s" % (o, p), "v": bits(rnd.randrange(4), 2)})
        elif r < 0.36:
            p = rnd.choice(["a", "b", "s1.x", "k", "s2.x", "s1.y"])
            ops.append({"op": "rand_mode", "p": "%s.%s" % (o, p), "b": rnd.random() < 0.4})
        elif r < 0.44:
            kind = rnd.choice(["rl_clear+", "rl_append", "rl_extend"])
            if kind == "rl_clear+":      # clear then refill (an emptied rangelist is an open zone)
                ops.append({"op": "rl", "kind": "rl_clear", "p": o + ".rl"})
                lo = rnd.randrange(4)
                ops.append({"op": "rl", "kind": "rl_extend", "p": o + ".rl", "items": [[lo, min(3, lo + rnd.randrange(2))], rnd.randrange(4)]})
            elif kind == "rl_append":
                ops.append({"op": "rl", "kind": "rl_append", "p": o + ".rl", "items": [rnd.randrange(4)]})
            else:
                lo = rnd.randrange(4)
                ops.append({"op": "rl", "kind": "rl_extend", "p": o + ".rl", "items": [[lo, min(3, lo + 1)]]})
        elif r < 0.52:
            kind = rnd.choice(["l_append", "l_setitem", "l_assign", "l_extend"])
            if kind == "l_append":
                ops.append({"op": "list", "kind": kind, "p": o + ".nl", "vs": [bits(rnd.randrange(4), 2)]})
            elif kind == "l_setitem":
                ops.append({"op": "list", "kind": kind, "p": o + ".nl", "i": 0, "vs": [bits(rnd.randrange(4), 2)]})
            elif kind == "l_assign":
                ops.append({"op": "list", "kind": kind, "p": o + ".nl", "vs": [bits(rnd.randrange(4), 2) for _ in range(rnd.randint(1, 3))]})
            else:
                ops.append({"op": "list", "kind": kind, "p": o + ".nl", "vs": [bits(rnd.randrange(4), 2)]})
        elif r < 0.80:
            kind = rnd.choice(["method", "method", "with", "with", "free_sub", "free_multi", "free_with"])
            if kind == "method":
                ops.append({"op": "call", "call": mcall(o)})
            elif kind == "with":
                ops.append({"op": "call", "call": wcall(rnd.choice(inl), o)})
            elif kind == "free_sub":
                ops.append({"op": "call", "call": {"kind": "free", "roots": [o + ".s1"], "owner": "", "inline": []}})
            elif kind == "free_multi":
                ops.append({"op": "call", "call": {"kind": "free", "roots": [o, "fa"], "owner": "", "inline": []}})
            else:
                ops.append({"op": "call", "call": {"kind": "free_with", "roots": ["fa", "fb", o], "owner": "",
                                                   "inline": [E(B("lt", F("fa"), F("fb"))), E(B("eq", F(o + ".a"), F("fa")))]}})
        else:
            ops.append({"op": "probe", "call": wcall([], o), "paths": ["%s.%s" % (o, p) for p in MIX_PROBE]})
    ops.append({"op": "probe", "call": wcall([], objs[0]), "paths": ["%s.%s" % (objs[0], p) for p in MIX_PROBE]})
    return {"id": sid, "world": world, "ops": ops, "tags": []}


def family_H(tier, seed, n=None):
    out = []
    n = n or (30 if tier == "quick" else 400)
    rnd = random.Random(555)
    for t in range(n // 2):                                   # deterministic core
        out.append(hist_mix(rnd, "H/core/%d" % t, steps=rnd.randint(6, 12)))
    rnd = random.Random(seed * 31 + 7)
    for t in range(n - n // 2):                               # seeded
        out.append(hist_mix(rnd, "H/s%d/%d" % (seed, t), steps=rnd.randint(6, 14)))
    return out
