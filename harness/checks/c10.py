"""C10 - coverpoint bins count exactly the samples whose value they contain."""
from .. import engine, fam_cov, fam_mc

LEVEL = "model_checking"
MODULE = "Trace_VscCov"
RUNNER = ("runner_cov", "run_scenario")


def run(tier, seed, limit=0):
    chk = engine.Check("C10", tier, seed)
    scs = fam_cov.family_bins(tier, seed)
    mc_scs, sim_states = fam_mc.family_mc_cov(tier, seed)      # TLC-generated behaviours of MC_VscCov, replayed
    scs = scs + mc_scs
    chk.extra_cov["tlc_generated_histories_replayed"] = len(mc_scs)
    chk.extra_cov["tlc_simulation_states"] = sim_states
    if limit:
        scs = scs[:limit]
    chk.run_scenarios(scs, MODULE, fn=RUNNER, batch_events=2500)
    chk.run_mc("B_Bins", {"MaxV": 3 if tier == "quick" else 5}, workers=12, label="compact/intersect |= value sets")
    # mk_collection transcribed statement by statement: for every compacted range list and bin count the bins it builds are
    # Partition(Sorted(values), n) of Cov.tla, and no list is indexed out of range on the way
    chk.run_mc("B_MkColl", {"MaxV": 6, "MaxR": 3, "MaxN": 4} if tier == "quick" else {"MaxV": 9, "MaxR": 3, "MaxN": 6}, workers=12,
               label="mk_collection |= Partition")
    return chk.finish(LEVEL, "random bin specifications (explicit bins, arrays with/without count, unordered/adjacent disjoint ranges, "
                      "ignore/illegal sets, auto-bins with auto_bin_max, enum, iff, signed types) each sampled with every value of the "
                      "type plus repeats and gated-off samples; TLC recomputes Partition(Values \\ Excluded, n) and every counter after "
                      "every event; distinct = distinct event content",
                      ["TLC 1.8; Cov.tla declarative bin semantics; CPython"])
