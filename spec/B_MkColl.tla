------------------------------ MODULE B_MkColl ------------------------------
(***************************************************************************)
(* Mechanism-level model of the partitioning of a bin array (C10):         *)
(* CoverpointBinCollectionModel.mk_collection(name, rangelist, n_bins),    *)
(* src/vsc/model/coverpoint_bin_collection_model.py, transcribed statement *)
(* by statement as a PlusCal algorithm (one label per loop head).  Input:  *)
(* a compacted range list (ascending, disjoint, possibly adjacent ranges)  *)
(* and the requested number of bins.  A bin is modelled by the set of      *)
(* values it holds (range bin, bag of ranges, single value, or - for a     *)
(* CoverpointBinArrayModel - one bin per value of its range).              *)
(* Obligation B |= A: at termination the bins are exactly                  *)
(*     Partition(Sorted(Vals(rangelist)), n_bins)        of Cov.tla        *)
(* - consecutive equal-size bins, remainder in the last one, one bin per   *)
(* value when the count is not smaller than the number of values - and no  *)
(* list is ever indexed out of range on the way (a TLC evaluation error).  *)
(* TLC explores every input up to the bounds as one behaviour each.        *)
(***************************************************************************)
EXTENDS Cov
CONSTANTS MaxV, MaxR, MaxN

Range2 == {<<a, b>> : a \in 0..MaxV, b \in 0..MaxV}
\* compacted lists: ascending, pairwise disjoint (RangelistModel.compact(), see B_Bins)
Compacted == {s \in UNION {[1..k -> {r \in Range2 : r[1] <= r[2]}] : k \in 1..MaxR} :
                 \A i \in 1..(Len(s) - 1) : s[i][2] < s[i + 1][1]}
NoR == <<0, -1>>          \* r is None
Size(r) == r[2] - r[1] + 1
NValues(s) == LET RECURSIVE Sm(_) Sm(i) == IF i > Len(s) THEN 0 ELSE Size(s[i]) + Sm(i + 1) IN Sm(1)
AddLast(bs, vs) == [bs EXCEPT ![Len(bs)] = @ \cup vs]

(* --algorithm MkColl {
  variables rl \in Compacted, n \in 1..MaxN,
            bins = << >>, vpb = 0, leftover = FALSE, r = NoR, rng_i = 1, bin_i = 0, n_rem = 0;
  {
  start:
    if (n < NValues(rl)) {
      vpb := NValues(rl) \div n;
      leftover := (NValues(rl) % n) # 0;
  loop:
      while (bin_i < n) {
        if (r = NoR) { r := rl[rng_i] };
  fits:
        if (Size(r) >= vpb) {
          if (bin_i + 1 < n \/ ~leftover) { bins := Append(bins, r[1]..(r[1] + vpb - 1)) }     \* CoverpointBinSingleRangeModel
          else { bins := Append(bins, r[1]..r[2]) };                                          \* last bin with leftovers: a bag
          if (Size(r) > vpb) { r := <<r[1] + vpb, r[2]>> }
          else { r := NoR; rng_i := rng_i + 1 }
        } else {
          bins := Append(bins, r[1]..r[2]);                                                   \* start a bag
          n_rem := vpb - Size(r);
          r := NoR;
          rng_i := rng_i + 1;
  fill:
          while (n_rem > 0) {
            if (r = NoR) { r := rl[rng_i] };
  take:
            if (r[2] - r[1] < n_rem) {
              bins := AddLast(bins, r[1]..r[2]);
              n_rem := n_rem - Size(r);
              r := NoR;
              rng_i := rng_i + 1
            } else {
              bins := AddLast(bins, r[1]..(r[1] + n_rem - 1));
              r := <<r[1] + n_rem, r[2]>>;
              n_rem := 0
            }
          }
        };
  step:
        bin_i := bin_i + 1
      };
      if (r # NoR) { bins := AddLast(bins, r[1]..r[2]); rng_i := rng_i + 1 };                   \* extend the last bin
  rest:
      while (rng_i <= Len(rl)) { bins := AddLast(bins, rl[rng_i][1]..rl[rng_i][2]); rng_i := rng_i + 1 }
    } else {
      \* no partitioning: a single-value bin, or an array model with one bin per value, for every range
      bins := [i \in 1..NValues(rl) |-> {Sorted(Vals(rl))[i]}]
    }
  }
} *)
\* BEGIN TRANSLATION
VARIABLES pc, rl, n, bins, vpb, leftover, r, rng_i, bin_i, n_rem

vars == << pc, rl, n, bins, vpb, leftover, r, rng_i, bin_i, n_rem >>

Init == (* Global variables *)
        /\ rl \in Compacted
        /\ n \in 1..MaxN
        /\ bins = << >>
        /\ vpb = 0
        /\ leftover = FALSE
        /\ r = NoR
        /\ rng_i = 1
        /\ bin_i = 0
        /\ n_rem = 0
        /\ pc = "start"

start == /\ pc = "start"
         /\ IF n < NValues(rl)
               THEN /\ vpb' = (NValues(rl) \div n)
                    /\ leftover' = ((NValues(rl) % n) # 0)
                    /\ pc' = "loop"
                    /\ bins' = bins
               ELSE /\ bins' = [i \in 1..NValues(rl) |-> {Sorted(Vals(rl))[i]}]
                    /\ pc' = "Done"
                    /\ UNCHANGED << vpb, leftover >>
         /\ UNCHANGED << rl, n, r, rng_i, bin_i, n_rem >>

loop == /\ pc = "loop"
        /\ IF bin_i < n
              THEN /\ IF r = NoR
                         THEN /\ r' = rl[rng_i]
                         ELSE /\ TRUE
                              /\ r' = r
                   /\ pc' = "fits"
                   /\ UNCHANGED << bins, rng_i >>
              ELSE /\ IF r # NoR
                         THEN /\ bins' = AddLast(bins, r[1]..r[2])
                              /\ rng_i' = rng_i + 1
                         ELSE /\ TRUE
                              /\ UNCHANGED << bins, rng_i >>
                   /\ pc' = "rest"
                   /\ r' = r
        /\ UNCHANGED << rl, n, vpb, leftover, bin_i, n_rem >>

fits == /\ pc = "fits"
        /\ IF Size(r) >= vpb
              THEN /\ IF bin_i + 1 < n \/ ~leftover
                         THEN /\ bins' = Append(bins, r[1]..(r[1] + vpb - 1))
                         ELSE /\ bins' = Append(bins, r[1]..r[2])
                   /\ IF Size(r) > vpb
                         THEN /\ r' = <<r[1] + vpb, r[2]>>
                              /\ rng_i' = rng_i
                         ELSE /\ r' = NoR
                              /\ rng_i' = rng_i + 1
                   /\ pc' = "step"
                   /\ n_rem' = n_rem
              ELSE /\ bins' = Append(bins, r[1]..r[2])
                   /\ n_rem' = vpb - Size(r)
                   /\ r' = NoR
                   /\ rng_i' = rng_i + 1
                   /\ pc' = "fill"
        /\ UNCHANGED << rl, n, vpb, leftover, bin_i >>

fill == /\ pc = "fill"
        /\ IF n_rem > 0
              THEN /\ IF r = NoR
                         THEN /\ r' = rl[rng_i]
                         ELSE /\ TRUE
                              /\ r' = r
                   /\ pc' = "take"
              ELSE /\ pc' = "step"
                   /\ r' = r
        /\ UNCHANGED << rl, n, bins, vpb, leftover, rng_i, bin_i, n_rem >>

take == /\ pc = "take"
        /\ IF r[2] - r[1] < n_rem
              THEN /\ bins' = AddLast(bins, r[1]..r[2])
                   /\ n_rem' = n_rem - Size(r)
                   /\ r' = NoR
                   /\ rng_i' = rng_i + 1
              ELSE /\ bins' = AddLast(bins, r[1]..(r[1] + n_rem - 1))
                   /\ r' = <<r[1] + n_rem, r[2]>>
                   /\ n_rem' = 0
                   /\ rng_i' = rng_i
        /\ pc' = "fill"
        /\ UNCHANGED << rl, n, vpb, leftover, bin_i >>

step == /\ pc = "step"
        /\ bin_i' = bin_i + 1
        /\ pc' = "loop"
        /\ UNCHANGED << rl, n, bins, vpb, leftover, r, rng_i, n_rem >>

rest == /\ pc = "rest"
        /\ IF rng_i <= Len(rl)
              THEN /\ bins' = AddLast(bins, rl[rng_i][1]..rl[rng_i][2])
                   /\ rng_i' = rng_i + 1
                   /\ pc' = "rest"
              ELSE /\ pc' = "Done"
                   /\ UNCHANGED << bins, rng_i >>
        /\ UNCHANGED << rl, n, vpb, leftover, r, bin_i, n_rem >>

(* Allow infinite stuttering to prevent deadlock on termination. *)
Terminating == pc = "Done" /\ UNCHANGED vars

Next == start \/ loop \/ fits \/ fill \/ take \/ step \/ rest
           \/ Terminating

Spec == Init /\ [][Next]_vars

Termination == <>(pc = "Done")

\* END TRANSLATION

PartitionExact == pc = "Done" => bins = Partition(Sorted(Vals(rl)), n)
\* on the way: the bins built so far are consecutive, disjoint, in ascending order
Ascending == \A i \in 1..(Len(bins) - 1) : \A a \in bins[i], b \in bins[i + 1] : a < b
=============================================================================
