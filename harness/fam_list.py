"""List families (C04): scalar lists of fixed and random size, foreach over element / index / both, index
arithmetic, sum, unique, size, membership, list edits between calls; foreach over object lists."""
import random

from .worlds import F, B, E, lit, bits
from .fam_expr import fld, wcall, mcall, RELS


def IT(v, p=""):
    return {"k": "it", "v": v, "p": p}


def IX(v):
    return {"k": "ix", "v": v}


def SUB(l, i, p=""):
    return {"k": "sub", "l": l, "i": i if isinstance(i, dict) else lit(i), "p": p}


def FE(l, v, body, it=True, idx=False):
    return {"k": "foreach", "l": l, "v": v, "it": it, "idx": idx, "body": body}


def list_field(name, w, signed, rand=True, init=(), randsz=False, cap=5):
    return {"name": name, "kind": "list", "w": w, "signed": signed, "rand": rand, "init": list(init), "randsz": randsz, "cap": cap}


def body_fixed(rnd, kind):
    """constraint statements over the fixed-size random list l (2-bit elements), scalars a (rand) and k (non-rand)"""
    if kind == "fe_it":
        return [FE("l", "i", [E(B(rnd.choice(RELS), IT("i"), rnd.choice([F("a"), F("k"), lit(rnd.randrange(4))])))])]
    if kind == "fe_idx":
        return [FE("l", "i", [E(B(rnd.choice(["eq", "ne", "le", "ge"]), SUB("l", IX("i")), IX("i")))], it=False, idx=True)]
    if kind == "fe_both":
        return [FE("l", "i", [E(B(rnd.choice(["ne", "ge", "le"]), IT("i"), IX("i")))], it=True, idx=True)]
    if kind == "fe_sorted":
        return [FE("l", "i", [{"k": "imp", "c": B("gt", IX("i"), lit(0)),
                               "body": [E(B(rnd.choice(["le", "lt", "ne"]), SUB("l", B("sub", IX("i"), lit(1))), SUB("l", IX("i"))))]}],
                   it=False, idx=True)]
    if kind == "fe_guard":
        return [FE("l", "i", [{"k": "if", "arms": [{"c": B("eq", IT("i"), F("k")), "body": [E(B("ne", F("a"), lit(0)))]}],
                               "els": [E(B("le", IT("i"), F("a")))]}])]
    if kind == "fe_tbl":
        # the condition reads a NON-RANDOM list at the foreach index: a different element for every iteration
        c1, c2 = rnd.sample(range(4), 2)
        return [FE("l", "i", [{"k": "if", "arms": [{"c": B(rnd.choice(["eq", "ge"]), SUB("nl", IX("i")), F("k")), "body": [E(B("eq", SUB("l", IX("i")), lit(c1)))]}],
                               "els": [E(B("eq", SUB("l", IX("i")), lit(c2)))]}], it=False, idx=True)]
    if kind == "fe_notidx":
        # a NEGATED condition on the index: folded while the foreach is unrolled
        c1, c2 = rnd.sample(range(4), 2)
        cond = {"k": "not", "e": B(rnd.choice(["eq", "ge"]), IX("i"), lit(rnd.choice([0, 1])))}
        return [FE("l", "i", [{"k": "if", "arms": [{"c": cond, "body": [E(B("eq", SUB("l", IX("i")), lit(c1)))]}],
                               "els": [E(B("eq", SUB("l", IX("i")), lit(c2)))]}], it=False, idx=True)]
    if kind == "fe_part":
        # a bit / part select of the element inside the body
        b_ = rnd.choice([0, 1])
        return [FE("l", "i", [E(B("eq", {"k": "part", "e": SUB("l", IX("i")), "hi": b_, "lo": b_}, lit(rnd.choice([0, 1]))))], it=False, idx=True),
                FE("l", "j", [E(B("ne", {"k": "part", "e": IT("j"), "hi": 1, "lo": 0}, F("k")))])]
    if kind == "idx_merge":
        # two separately constrained variables (a, l[0]) related afterwards by a literal subscript
        # (none of the three is implied by the others: losing the constraints of either group while the sets merge shows)
        ix = rnd.choice([0, 2])
        join = B(rnd.choice(["le", "eq", "ge"]), F("a"), SUB("l", ix)) if rnd.random() < 0.7 else B(rnd.choice(["le", "eq"]), SUB("l", ix), F("a"))
        return [E(B("ne", F("a"), lit(rnd.choice([1, 2])))), E(B("ne", SUB("l", ix), lit(rnd.choice([0, 2, 3])))), E(join),
                {"k": "soft", "e": B("eq", SUB("l", ix), lit(1))}]
    if kind == "sum":
        return [E(B(rnd.choice(["eq", "le", "ge"]), {"k": "sum", "l": "l"}, rnd.choice([lit(rnd.randrange(7)), F("a")])))]
    if kind == "expr_elem":
        # an EXPRESSION on the left of an ordering relation whose right operand is a list element (literal index, and the
        # foreach index): Python hands such a comparison to the right operand first
        r1, r2, r3 = (rnd.choice(["lt", "le", "gt", "ge"]) for _ in range(3))
        return [E(B(r1, B("add", F("a"), lit(1)), SUB("l", 2))), E(B(r2, B("add", SUB("l", 0), F("k")), SUB("l", 1))),
                FE("l", "i", [E(B(r3, B("add", F("a"), lit(rnd.choice([0, 2]))), SUB("l", IX("i"))))], it=False, idx=True)]
    if kind == "sum_arith":
        # arithmetic NEXT to the sum: the width of l.sum follows the length of the list, which the edits between the calls change
        # (each relation has a 32-bit literal on the other side: the additions are evaluated at 32 bits, whatever width the
        #  library gives the sum itself - which is not part of the property)
        # (the first statement has no such literal: an open zone for the values - but never for exceptions: the cached width of
        #  the addition must follow the list)
        return [E(B(rnd.choice(["ge", "gt", "ne"]), B("add", {"k": "sum", "l": "l"}, F("k")), F("a"))) if rnd.random() < 0.6 else
                E(B(rnd.choice(["ge", "gt", "ne"]), B("add", {"k": "sum", "l": "l"}, F("k")), lit(rnd.choice([1, 2, 4])))),
                E(B("le", B("add", F("a"), {"k": "sum", "l": "l"}), lit(rnd.choice([5, 7, 9]))))]
    if kind == "prod":
        return [E(B(rnd.choice(["eq", "le", "ge", "ne"]), {"k": "prod", "l": "l"}, rnd.choice([lit(rnd.choice([0, 1, 2, 4, 6])), F("a")])))]
    if kind == "prod_fe":
        return [E(B(rnd.choice(["eq", "le"]), {"k": "prod", "l": "l"}, lit(rnd.choice([2, 4, 6, 9])))),
                FE("l", "i", [E(B("gt", SUB("l", IX("i")), lit(0)))], it=False, idx=True)]
    if kind == "fe_agg":
        # an aggregate of the list INSIDE a foreach body over the same list
        agg = rnd.choice(["sum", "sum", "prod"])
        if agg == "sum":
            # (no arithmetic on the element side: how wide l.sum is - and with it the width at which the other operand is
            #  evaluated - is the library's choice, not part of the property)
            return [FE("l", "i", [E(B(rnd.choice(["lt", "ne", "lt"]), SUB("l", IX("i")), {"k": "sum", "l": "l"}))], it=False, idx=True)]
        return [FE("l", "i", [E(B("gt", SUB("l", IX("i")), lit(0))), E(B("le", B("mul", SUB("l", IX("i")), lit(2)), {"k": "prod", "l": "l"}))], it=False, idx=True)]
    if kind in ("fe_toggle", "fe_dyn"):
        return [E(B("le", F("a"), lit(3)))]      # (the foreach lives in block c9, toggled by the history)
    if kind == "uniq":
        return [{"k": "uniq", "args": [{"k": "lst", "p": "l"}]}]
    if kind == "uniq_mixed":
        return [{"k": "uniq", "args": [{"k": "lst", "p": "l"}, F("a")]}]
    if kind == "member":
        return [E({"k": "in", "e": F("a"), "items": [{"k": "l", "p": "l"}], "neg": rnd.random() < 0.3})]
    if kind == "index":
        return [E(B(rnd.choice(RELS), SUB("l", 0), SUB("l", rnd.choice([1, 2])))), E(B("ne", SUB("l", 1), F("k")))]
    if kind == "nl_member":
        return [FE("l", "i", [E({"k": "in", "e": IT("i"), "items": [{"k": "l", "p": "nl"}], "neg": False})])]
    raise ValueError(kind)


FIXED_KINDS = ["fe_it", "fe_idx", "fe_both", "fe_sorted", "fe_guard", "sum", "uniq", "uniq_mixed", "member", "index", "nl_member", "prod", "prod_fe", "fe_tbl", "fe_notidx", "fe_part", "idx_merge", "fe_toggle", "fe_agg", "fe_dyn", "sum_arith", "expr_elem"]


def family_fixed(tier, seed, n=None):
    out = witness_sum_reassign() + witness_empty_list()
    per = 2 if tier == "quick" else 24
    for kind in FIXED_KINDS:
        for t in range(per):
            core = t < (per + 1) // 2
            rnd = random.Random((404 if core else 4100 + seed) * 100003 + t * 31 + FIXED_KINDS.index(kind))
            size = rnd.choice([0, 1, 2, 3, 3])
            if kind in ("index", "idx_merge", "fe_agg", "expr_elem"):
                size = 3
            fields = [fld("a", 2, False), fld("k", 2, False, rand=False, init=rnd.randrange(4)),
                      list_field("l", 2, rnd.random() < 0.2 and kind not in ("sum",), init=[0] * size, cap=5),
                      list_field("nl", 2, False, rand=False, init=[1, 2] if kind != "fe_tbl" else [rnd.randrange(4) for _ in range(4)], cap=6)]      # (four elements and two appends)
            body = body_fixed(rnd, kind)
            if rnd.random() < 0.4:
                body.append(E(B("ne", F("a"), F("k"))))
            blocks = [{"name": "c1", "dynamic": False, "body": body}]
            if kind == "fe_toggle":
                blocks.append({"name": "c9", "dynamic": False,
                               "body": [FE("l", "i", [E(B(rnd.choice(["eq", "le"]), SUB("l", IX("i")), B("and", IX("i"), lit(3))))], it=False, idx=True)]})
            dyn = []
            if kind == "fe_dyn":
                # the foreach lives in a DYNAMIC block: it is expanded when a call references the block
                blocks.append({"name": "dq", "dynamic": True,
                               "body": [FE("l", "i", [E(B(rnd.choice(["eq", "le"]), SUB("l", IX("i")), B("and", B("add", IX("i"), lit(1)), lit(3))))], it=False, idx=True)]})
                dyn = [E({"k": "dyn", "o": "", "b": "dq"})]
            world = {"classes": {"A": {"base": "", "fields": fields, "blocks": blocks}},
                     "population": [{"id": "o1", "cls": "A"}]}
            elems = ["o1.l[%d]" % i for i in range(size)]
            probe = {"op": "probe", "call": wcall(dyn), "paths": ["o1.a"] + elems}
            ops = [{"op": "construct", "o": "o1"}, {"op": "call", "call": mcall() if not dyn else wcall(dyn)}, {"op": "call", "call": mcall()}, probe]
            if kind == "fe_toggle":
                # the block with the foreach is OFF during a call, the list changes, the block is switched on again
                ops += [{"op": "cmode", "o": "o1", "b": "c9", "en": False}, {"op": "call", "call": mcall()}]
            # edits between calls: the next call acts on exactly the exposed list
            for _ in range(2):
                ed = rnd.choice(["l_append", "l_clear+", "l_assign", "l_setitem", "nl_append", "set_k"])

                if ed == "l_append" and size < 4:
                    ops.append({"op": "list", "kind": "l_append", "p": "o1.l", "vs": [bits(rnd.randrange(4), 2)]})
                    size += 1
                elif ed == "l_clear+":
                    ops.append({"op": "list", "kind": "l_clear", "p": "o1.l"})
                    size = rnd.choice([0, 1, 2]) if kind != "index" else 2
                    if size:
                        ops.append({"op": "list", "kind": "l_extend", "p": "o1.l", "vs": [bits(rnd.randrange(4), 2) for _ in range(size)]})
                elif ed == "l_assign":
                    size = rnd.choice([1, 2, 3])
                    ops.append({"op": "list", "kind": "l_assign", "p": "o1.l", "vs": [bits(rnd.randrange(4), 2) for _ in range(size)]})
                elif ed == "l_setitem" and size > 0:
                    ops.append({"op": "list", "kind": "l_setitem", "p": "o1.l", "i": 0, "vs": [bits(rnd.randrange(4), 2)]})
                elif ed == "nl_append":
                    ops.append({"op": "list", "kind": "l_append", "p": "o1.nl", "vs": [bits(rnd.randrange(4), 2)]})
                else:
                    ops.append({"op": "set", "p": "o1.k", "v": bits(rnd.randrange(4), 2)})
                if kind in ("index", "idx_merge", "fe_agg", "expr_elem") and size < 3:
                    ops.append({"op": "list", "kind": "l_assign", "p": "o1.l", "vs": [bits(0, 2)] * 3})
                    size = 3
                elems = ["o1.l[%d]" % i for i in range(size)]
                if kind == "fe_toggle":
                    ops.append({"op": "cmode", "o": "o1", "b": "c9", "en": _ == 0})
                ops.append({"op": "call", "call": mcall() if not dyn else wcall(dyn)})
                ops.append({"op": "probe", "call": wcall(dyn), "paths": ["o1.a"] + elems, "cap": 1024})
            out.append({"id": "L/fixed/%s/%s/%d" % (kind, "core" if core else "s%d" % seed, t), "world": world, "ops": ops, "tags": []})
    return out


def witness_empty_list():
    """over an EMPTY list `l.sum >= 2` and `a in l` are constant false: the call must fail
    (former known finding C02-field-free-statement-dropped, repaired: see known_findings.json `fixed`)"""
    out = []
    for nm, body in (("empty_sum", [E(B("ge", {"k": "sum", "l": "l"}, lit(2)))]),
                     ("empty_member", [E({"k": "in", "e": F("a"), "items": [{"k": "l", "p": "l"}], "neg": False})])):
        fields = [fld("a", 2, False), fld("k", 2, False, rand=False, init=0), list_field("l", 2, False, init=[], cap=5),
                  list_field("nl", 2, False, rand=False, init=[1, 2], cap=5)]
        world = {"classes": {"A": {"base": "", "fields": fields, "blocks": [{"name": "c1", "dynamic": False, "body": body}]}},
                 "population": [{"id": "o1", "cls": "A"}]}
        out.append({"id": "L/fixed/witness/" + nm, "world": world,
                    "ops": [{"op": "construct", "o": "o1"}, {"op": "call", "call": mcall()}], "tags": []})
    return out


def witness_sum_reassign():
    fields = [fld("a", 2, False), fld("k", 2, False, rand=False, init=0), list_field("l", 2, False, init=[0, 0, 0], cap=5),
              list_field("nl", 2, False, rand=False, init=[1, 2], cap=5)]
    body = [E(B("ge", {"k": "sum", "l": "l"}, F("a")))]
    world = {"classes": {"A": {"base": "", "fields": fields, "blocks": [{"name": "c1", "dynamic": False, "body": body}]}},
             "population": [{"id": "o1", "cls": "A"}]}
    ops = [{"op": "construct", "o": "o1"}, {"op": "call", "call": mcall()},
           {"op": "list", "kind": "l_assign", "p": "o1.l", "vs": [bits(3, 2)]}, {"op": "call", "call": mcall()}]
    return [{"id": "L/fixed/witness/sum_reassign", "world": world, "ops": ops, "tags": []}]


def family_randsz(tier, seed, n=None):
    """random-size lists: the size is always bounded by a top-level constraint (otherwise an open zone)"""
    out = []
    kinds = ["size_only", "fe_it", "fe_idx", "sum_fixed", "uniq", "coupled", "edit_after", "rs_sum", "rs_member",
             "rs_sum_sizelast", "rs_member_sizeblock", "rs_prod", "cap_expr"]
    per = 2 if tier == "quick" else 20
    for kind in kinds:
        for t in range(per):
            core = t < (per + 1) // 2
            rnd = random.Random((414 if core else 4200 + seed) * 100003 + t * 37 + kinds.index(kind))
            hi = rnd.choice([1, 2, 3])
            lo = rnd.choice([0, 0, 1]) if hi > 0 else 0
            w = rnd.choice([1, 2])
            if kind in ("rs_member", "rs_member_sizeblock", "rs_prod"):
                lo = max(lo, 1)           # (an element constraint that excludes size 0: see C04-size-solved-before-elements)
            if kind == "rs_prod":
                w, hi = 2, 3
            if kind == "uniq":
                # quarantine of known finding C04-size-solved-before-elements: the element constraints of the generated
                # programs are satisfiable for every admissible size (witness: L/randsz/witness/uniq)
                w = 2
            fields = [fld("a", 2, False), fld("k", 2, False, rand=False, init=rnd.randrange(4)),
                      list_field("l", w, False, randsz=True, cap=5)]
            body = [E({"k": "in", "e": {"k": "size", "l": "l"}, "items": [{"k": "r", "lo": lit(lo), "hi": lit(hi)}], "neg": False})]
            if kind == "cap_expr":
                # the size is capped by a non-random EXPRESSION (also written on the left of the relation): every admitted size
                # - the cap itself included - yields a list of that many elements
                kq = fields[1]["init"] % 3
                capx = B("add", F("k"), lit(3 - kq))                        # k + (3 - k) = 3 with the initial k
                fields[1]["init"] = kq
                body = [E(B("ge", capx, {"k": "size", "l": "l"})) if t % 2 == 0 else E(B("le", {"k": "size", "l": "l"}, capx)),
                        {"k": "soft", "e": B("eq", {"k": "size", "l": "l"}, capx)},
                        FE("l", "i", [E(B("le", IT("i"), lit((1 << w) - 1)))])]
            if kind == "fe_it":
                body.append(FE("l", "i", [E(B(rnd.choice(["ne", "le", "ge"]), IT("i"), lit(rnd.randrange(1 << w))))]))
            elif kind == "fe_idx":
                body.append(FE("l", "i", [E(B("eq", SUB("l", IX("i")), B("and", IX("i"), lit((1 << w) - 1))))], it=False, idx=True))
            elif kind == "uniq":
                body.append({"k": "uniq", "args": [{"k": "lst", "p": "l"}]})
            elif kind == "coupled":
                body.append(E(B(rnd.choice(["le", "ge", "eq", "ne"]), {"k": "size", "l": "l"}, F("a"))))
            elif kind == "sum_fixed":
                body.append(E(B("le", F("a"), {"k": "size", "l": "l"})))
            elif kind == "rs_sum":
                body.append(E(B(rnd.choice(["le", "ge"]), {"k": "sum", "l": "l"}, F("a"))))
            elif kind == "rs_member":
                body.append(E({"k": "in", "e": F("a"), "items": [{"k": "l", "p": "l"}], "neg": False}))
            elif kind == "rs_sum_sizelast":
                # the element constraint is DECLARED BEFORE the size constraint (same block)
                body.insert(0, E(B(rnd.choice(["le", "ge", "eq"]), {"k": "sum", "l": "l"}, F("a"))))
            elif kind == "rs_prod":
                body.append(E(B(rnd.choice(["eq", "eq", "le"]), {"k": "prod", "l": "l"}, lit(rnd.choice([2, 3])))))      # (met by every admitted size: quarantine of C04-size-solved-before-elements)
            blocks = [{"name": "c1", "dynamic": False, "body": body}]
            if kind == "rs_member_sizeblock":
                # ... or in a block declared after the block with the element constraints
                blocks = [{"name": "c0", "dynamic": False, "body": [E({"k": "in", "e": F("a"), "items": [{"k": "l", "p": "l"}], "neg": False}),
                                                                     E(B("ge", {"k": "sum", "l": "l"}, F("a")))]},
                          {"name": "c1", "dynamic": False, "body": body}]
            world = {"classes": {"A": {"base": "", "fields": fields, "blocks": blocks}},
                     "population": [{"id": "o1", "cls": "A"}]}
            ops = [{"op": "construct", "o": "o1"}]
            for _ in range(4):
                ops.append({"op": "call", "call": mcall()})
            # every size: satisfiable exactly when the constraints admit it
            for nsz in (range(0, 4) if kind != "rs_prod" else (3, 1, 2, 0, 3, 2)):
                ops.append({"op": "call", "call": wcall([E(B("eq", {"k": "size", "l": "l"}, lit(nsz)))])})
            if kind == "edit_after":
                ops.append({"op": "call", "call": mcall()})
                ops.append({"op": "list", "kind": "l_append", "p": "o1.l", "vs": [bits(1, w)]})
                ops.append({"op": "list", "kind": "l_clear", "p": "o1.l"})
                ops.append({"op": "list", "kind": "l_append", "p": "o1.l", "vs": [bits(0, w)]})
                ops.append({"op": "call", "call": mcall()})
                ops.append({"op": "list", "kind": "l_append", "p": "o1.l", "vs": [bits(1, w)]})
            ops.append({"op": "call", "call": mcall()})
            out.append({"id": "L/randsz/%s/%s/%d" % (kind, "core" if core else "s%d" % seed, t), "world": world, "ops": ops, "tags": []})
    # witness of the known finding: unique over a random-size list of 1-bit elements with sizes 1..3 admitted
    fields = [fld("a", 2, False), fld("k", 2, False, rand=False, init=0), list_field("l", 1, False, randsz=True, cap=5)]
    body = [E({"k": "in", "e": {"k": "size", "l": "l"}, "items": [{"k": "r", "lo": lit(1), "hi": lit(3)}], "neg": False}),
            {"k": "uniq", "args": [{"k": "lst", "p": "l"}]}]
    world = {"classes": {"A": {"base": "", "fields": fields, "blocks": [{"name": "c1", "dynamic": False, "body": body}]}},
             "population": [{"id": "o1", "cls": "A"}]}
    out.append({"id": "L/randsz/witness/uniq", "world": world,
                "ops": [{"op": "construct", "o": "o1"}] + [{"op": "call", "call": mcall()} for _ in range(12)], "tags": []})
    return out


def family_objlist(tier, seed, n=None):
    out = []
    n = n or (8 if tier == "quick" else 100)
    for t in range(n):
        core = t < n // 2
        rnd = random.Random((424 if core else 4300 + seed) * 100003 + t)
        sub = {"base": "", "fields": [fld("x", 2, False), fld("z", 2, False, rand=False, init=rnd.randrange(4))],
               "blocks": [{"name": "sc", "dynamic": False, "body": [E(B("ne", F("x"), F("z")))]}]}
        if t % 3 == 2:
            sub["fields"].append(fld("y", 2, False))
        nobj = rnd.choice([1, 2, 3])
        top = {"base": "", "fields": [fld("a", 2, False), {"name": "ol", "kind": "objlist", "cls": "Sub", "n": nobj, "rand": rnd.random() < 0.8}],
               "blocks": [{"name": "c1", "dynamic": False,
                           "body": [FE("ol", "e", [E(B(rnd.choice(["le", "ne", "ge"]), IT("e", "x"), F("a")))]),
                                    FE("ol", "j", [{"k": "imp", "c": B("gt", IX("j"), lit(0)),
                                                    "body": [E(B(rnd.choice(["lt", "le", "ne"]), SUB("ol", B("sub", IX("j"), lit(1)), "x"),
                                                                 SUB("ol", IX("j"), "x")))]}], it=False, idx=True)]}]}
        if t % 3 == 1:
            # a condition on a field of an element of a NON-RANDOM object list (a configuration table): folded per iteration
            top["fields"].append({"name": "cfg", "kind": "objlist", "cls": "Sub", "n": nobj, "rand": False})
            c1, c2 = rnd.sample(range(4), 2)
            fldn = rnd.choice(["z", "x"])        # x is declared random, but the table is not random in the call: a constant too
            top["blocks"][0]["body"].append(
                FE("cfg", "c", [{"k": "if", "arms": [{"c": B(rnd.choice(["eq", "ge"]), SUB("cfg", IX("c"), fldn), lit(rnd.choice([1, 2]))),
                                                      "body": [E(B("ne", SUB("ol", IX("c"), "x"), lit(c1)))]}],
                                 "els": [E(B("ne", SUB("ol", IX("c"), "x"), lit(c2)))]}], it=False, idx=True))
        if t % 3 == 2:
            # unique over two fields of EACH element, stated once inside a foreach
            top["blocks"][0]["body"].append(FE("ol", "u", [{"k": "uniq", "args": [SUB("ol", IX("u"), "x"), SUB("ol", IX("u"), "y")]}], it=False, idx=True)
                                            if t % 2 == 0 else FE("ol", "u", [{"k": "uniq", "args": [IT("u", "x"), IT("u", "y")]}]))
        world = {"classes": {"Sub": sub, "Top": top}, "population": [{"id": "o1", "cls": "Top"}]}
        paths = ["o1.a"] + ["o1.ol[%d].x" % i for i in range(nobj)] + (["o1.ol[%d].y" % i for i in range(nobj)] if t % 3 == 2 else [])
        ops = [{"op": "construct", "o": "o1"}]
        if t % 3 == 1:
            for i in range(nobj):
                ops += [{"op": "set", "p": "o1.cfg[%d].z" % i, "v": bits(rnd.randrange(4), 2)}, {"op": "set", "p": "o1.cfg[%d].x" % i, "v": bits(rnd.randrange(4), 2)}]
        ops += [{"op": "call", "call": mcall()}, {"op": "probe", "call": wcall(), "paths": paths},
                {"op": "set", "p": "o1.ol[0].z", "v": bits(rnd.randrange(4), 2)}, {"op": "call", "call": mcall()},
                {"op": "probe", "call": wcall(), "paths": paths}]
        if t % 3 == 1:
            ops += [{"op": "set", "p": "o1.cfg[0].z", "v": bits(rnd.randrange(4), 2)}, {"op": "set", "p": "o1.cfg[0].x", "v": bits(rnd.randrange(4), 2)},
                    {"op": "call", "call": mcall()}, {"op": "probe", "call": wcall(), "paths": paths}]
        out.append({"id": "L/obj/%s/%d" % ("core" if core else "s%d" % seed, t), "world": world, "ops": ops, "tags": []})
    return out


def family_objlist_randsz(tier, seed, n=None, cb_all=False, tag="L/objrs"):
    """random-size lists of OBJECTS: the user populates the list, the solver chooses how many elements it exposes.  Calls pin
    the size to values that shrink and grow again; foreach bodies (element and index forms), the elements' own blocks and
    the four views of the list are judged on the exposed prefix after every call"""
    out = []
    n = n or (6 if tier == "quick" else 80)
    for t in range(n):
        core = t < n // 2
        rnd = random.Random((434 if core else 4400 + seed) * 100003 + t)
        nobj = rnd.choice([2, 3, 4])
        sub = {"base": "", "cb": cb_all or t % 2 == 0,
               "fields": [fld("x", 3, False), fld("y", 2, False), fld("z", 2, False, rand=False, init=rnd.randrange(4))],
               "blocks": [{"name": "sc", "dynamic": False, "body": [E(B("ne", F("y"), F("z")))]}]}
        tiny = t % 3 == 2
        if tiny:
            # few solver bits: TLC decides SolveFailure <=> no (size, values) candidate (fail_iff_unsat over sizes)
            # (z = 1: every populated element can meet its own block and the foreach body at every position, so the outcome
            #  does not depend on whether the library also constrains the elements the list hides - which is not stated)
            sub["fields"] = [fld("x", 3, False, rand=False, init=0), fld("y", 1, False), fld("z", 1, False, rand=False, init=1)]
        lo = rnd.choice([0, 1, 1])
        # the declared bound may exceed the population: the list can never expose more objects than the user appended
        hi = nobj + [0, 2, 1][t % 3]
        body = [E({"k": "in", "e": {"k": "size", "l": "ol"}, "items": [{"k": "r", "lo": lit(lo), "hi": lit(hi)}], "neg": False}) if t % 4 != 3 else
                E(B("ge", {"k": "size", "l": "ol"}, lit(lo))),
                # the element at position i carries i (+ a): a hidden or stale expansion shows as a wrong value
                FE("ol", "j", [E(B("eq", SUB("ol", IX("j"), "x"), B("add", IX("j"), lit(t % 3))))], it=False, idx=True) if not tiny else
                FE("ol", "j", [E(B("le", SUB("ol", IX("j"), "y"), IX("j")))], it=False, idx=True),
                FE("ol", "e", [E(B(rnd.choice(["le", "ne", "ge"]), IT("e", "y"), F("a")))])]
        if t % 3 == 1:
            body.append(E(B(rnd.choice(["le", "ge", "ne"]), {"k": "size", "l": "ol"}, F("a"))))
        top = {"base": "", "cb": cb_all or t % 2 == 0,
               "fields": [fld("a", 2, False), {"name": "ol", "kind": "objlist", "cls": "Sub", "n": nobj, "rand": True, "randsz": True}],
               "blocks": [{"name": "c1", "dynamic": False, "body": body}]}
        world = {"classes": {"Sub": sub, "Top": top}, "population": [{"id": "o1", "cls": "Top"}]}
        ops = [{"op": "construct", "o": "o1"}]
        wants = [nobj, 1, 1, nobj, max(lo, 0), nobj - 1, 2, nobj]
        rnd.shuffle(wants)
        for k_, want in enumerate([nobj] + wants):
            ops.append({"op": "call", "call": wcall([E(B("eq", {"k": "size", "l": "ol"}, lit(want)))])})
            if cb_all and not tiny and k_ % 2 == 1:
                # the pre_randomize hook of an ELEMENT assigns the non-random field its own block reads: the solver sees it
                ops[-1]["cb_script"] = [{"ph": "pre", "o": "o1.ol[0]", "assign": "o1.ol[0].z", "v": bits(rnd.randrange(4), 2)}]
            if k_ % 3 == 2:
                ops.append({"op": "call", "call": mcall()})
            if k_ == 4 and not tiny:
                ops.append({"op": "set", "p": "o1.ol[0].z", "v": bits(rnd.randrange(2), 1) if tiny else bits(rnd.randrange(4), 2)})
        # at least the whole population (the declared bound may admit more): exactly the population is the only way
        ops.append({"op": "call", "call": wcall([E(B("ge", {"k": "size", "l": "ol"}, lit(nobj)))])})
        ops.append({"op": "call", "call": wcall([E(B("gt", {"k": "size", "l": "ol"}, lit(nobj - 1)))])})
        ops.append({"op": "call", "call": wcall([E(B("eq", {"k": "size", "l": "ol"}, lit(nobj + 1)))])})     # more than populated: fails
        ops.append({"op": "call", "call": mcall()})
        out.append({"id": "%s/%s/%d" % (tag, "core" if core else "s%d" % seed, t), "world": world, "ops": ops, "tags": []})
    return out


def family_randsz_nested(tier, seed, n=None):
    """random-size scalar lists owned by (a) a NON-RANDOM member object - a constant of the call, never resized - and (b) the
    elements of an object list - each element's list sized and constrained on its own"""
    out = []
    n = n or (6 if tier == "quick" else 60)
    for t in range(n):
        rnd = random.Random((444 if t < n // 2 else 4500 + seed) * 100003 + t)
        hi = rnd.choice([1, 2, 3])
        sub = {"base": "", "fields": [fld("x", 2, False), list_field("l", 2, False, randsz=True, cap=5)],
               "blocks": [{"name": "sc", "dynamic": False,
                           "body": [E({"k": "in", "e": {"k": "size", "l": "l"}, "items": [{"k": "r", "lo": lit(rnd.choice([0, 1])), "hi": lit(hi)}], "neg": False}),
                                    FE("l", "i", [E(B(rnd.choice(["ne", "le", "ge"]), IT("i"), F("x")))])]}]}
        if t % 2 == 0:
            top = {"base": "", "fields": [fld("a", 2, False), {"name": "s", "kind": "obj", "cls": "Sub", "rand": False},
                                          {"name": "r", "kind": "obj", "cls": "Sub", "rand": True}],
                   "blocks": [{"name": "c1", "dynamic": False, "body": [E(B("ne", F("a"), F("r.x")))]}]}
            calls = [mcall(), mcall(), {"kind": "free", "roots": ["o1"], "owner": "", "inline": []}, mcall(),
                     {"kind": "free", "roots": ["o1.s"], "owner": "", "inline": []}, mcall()]      # as a ROOT the member is random
        else:
            top = {"base": "", "fields": [fld("a", 2, False), {"name": "ol", "kind": "objlist", "cls": "Sub", "n": 2, "rand": True}],
                   "blocks": [{"name": "c1", "dynamic": False, "body": [E(B("ne", F("ol[0].x"), F("ol[1].x")))]}]}
            # (the size of an element's list cannot be named from the owner's with-block: the DSL has no such path)
            calls = [mcall(), mcall(), wcall([E(B("ne", F("ol[0].x"), lit(1)))]), mcall(),
                     {"kind": "free", "roots": ["o1.ol[1]"], "owner": "", "inline": []}, mcall()]
        world = {"classes": {"Sub": sub, "Top": top}, "population": [{"id": "o1", "cls": "Top"}]}
        ops = [{"op": "construct", "o": "o1"}] + [{"op": "call", "call": c} for c in calls]
        out.append({"id": "L/rsnest/%s/%d" % ("member" if t % 2 == 0 else "elem", t), "world": world, "ops": ops, "tags": []})
    return out


def family_uniqvec(tier, seed, n=None):
    """unique_vec over two or three lists read as vectors: fixed-size random lists (one of them possibly NOT random - a
    constant vector), with exhaustive truth tables before and after the lists grow together or the constant vector is
    rewritten; random-size lists of equal solved size (the vectors are the EXPOSED elements, every size pinned in turn)"""
    out = []
    n = n or (8 if tier == "quick" else 90)
    for t in range(n):
        core = t < (n + 1) // 2
        rnd = random.Random((454 if core else 4600 + seed) * 100003 + t)
        nl = 2 if t % 3 else 3
        w = rnd.choice([1, 2]) if nl == 2 else 1
        size = rnd.choice([1, 2])
        const = t % 4 == 1                       # the last vector is a non-random list
        names = ["l%d" % i for i in range(1, nl + 1)]
        fields = [fld("a", 2, False), fld("k", 2, False, rand=False, init=rnd.randrange(4))]
        for i, nm in enumerate(names):
            nonrand = const and i == nl - 1
            fields.append(list_field(nm, w, False, rand=not nonrand, init=[rnd.randrange(1 << w) if nonrand else 0 for _ in range(size)], cap=4))
        body = [{"k": "uniqv", "ls": names}]
        if rnd.random() < 0.5:
            body.append(E(B(rnd.choice(["le", "ne"]), SUB("l1", 0), F("a"))))
        world = {"classes": {"A": {"base": "", "fields": fields, "blocks": [{"name": "c1", "dynamic": False, "body": body}]}},
                 "population": [{"id": "o1", "cls": "A"}]}

        def paths(sz):
            return ["o1.a"] + ["o1.%s[%d]" % (nm, i) for nm in names for i in range(sz)]
        ops = [{"op": "construct", "o": "o1"}, {"op": "call", "call": mcall()}, {"op": "call", "call": mcall()},
               {"op": "probe", "call": wcall(), "paths": paths(size), "cap": 4096}]
        if size * nl * w + 2 + nl * w <= 12:
            # every vector grows by one element: the constraint spans the new position too
            for nm in names:
                ops.append({"op": "list", "kind": "l_append", "p": "o1." + nm, "vs": [bits(rnd.randrange(1 << w), w)]})
            size += 1
            ops += [{"op": "call", "call": mcall()}, {"op": "probe", "call": wcall(), "paths": paths(size), "cap": 4096}]
        if const:
            ops += [{"op": "list", "kind": "l_setitem", "p": "o1." + names[-1], "i": 0, "vs": [bits(rnd.randrange(1 << w), w)]},
                    {"op": "call", "call": mcall()}, {"op": "probe", "call": wcall(), "paths": paths(size), "cap": 4096}]
        # all vectors shrink to one element together
        for nm in names:
            ops.append({"op": "list", "kind": "l_assign", "p": "o1." + nm, "vs": [bits(rnd.randrange(1 << w), w)]})
        ops += [{"op": "call", "call": mcall()}, {"op": "probe", "call": wcall(), "paths": paths(1), "cap": 4096}]
        out.append({"id": "L/uniqv/fixed/%s/%d" % ("core" if core else "s%d" % seed, t), "world": world, "ops": ops, "tags": []})
    m = 4 if tier == "quick" else 30
    for t in range(m):
        core = t < (m + 1) // 2
        rnd = random.Random((464 if core else 4700 + seed) * 100003 + t)
        w = 1 if t % 2 == 0 else 2
        lo, hi = rnd.choice([(1, 2), (1, 3), (1, 2), (0, 2)]), None
        lo, hi = lo
        fields = [fld("a", 2, False), fld("k", 2, False, rand=False, init=rnd.randrange(4)),
                  list_field("l1", w, False, randsz=True, cap=5), list_field("l2", w, False, randsz=True, cap=5)]
        body = [E({"k": "in", "e": {"k": "size", "l": "l1"}, "items": [{"k": "r", "lo": lit(lo), "hi": lit(hi)}], "neg": False}),
                E(B("eq", {"k": "size", "l": "l2"}, {"k": "size", "l": "l1"})),
                {"k": "uniqv", "ls": ["l1", "l2"]}]
        world = {"classes": {"A": {"base": "", "fields": fields, "blocks": [{"name": "c1", "dynamic": False, "body": body}]}},
                 "population": [{"id": "o1", "cls": "A"}]}
        ops = [{"op": "construct", "o": "o1"}] + [{"op": "call", "call": mcall()} for _ in range(6)]
        for nsz in (hi, 1, 2, 1, hi, 1):
            ops.append({"op": "call", "call": wcall([E(B("eq", {"k": "size", "l": "l1"}, lit(nsz)))])})
            ops.append({"op": "call", "call": mcall()})
        out.append({"id": "L/uniqv/randsz/%s/%d" % ("core" if core else "s%d" % seed, t), "world": world, "ops": ops, "tags": []})
    return out
