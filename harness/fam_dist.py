"""Distribution families (C14, C15, C20): micro-programs whose every draw sequence is enumerated (instrument I2),
plus pin-probe truth tables for the universal (hard) parts."""
import itertools
import random

from .worlds import F, B, E, lit, bits
from .fam_expr import fld, wcall, mcall, RELS, rel_atom, stmt_S


def one(fields, blocks):
    return {"classes": {"A": {"base": "", "fields": fields, "blocks": blocks}}, "population": [{"id": "o1", "cls": "A"}]}


def blk(name, body):
    return {"name": name, "dynamic": False, "body": body}


def W(item, w):
    return {"it": item, "w": w if isinstance(w, dict) else lit(w)}


def V(v):
    return {"k": "v", "e": lit(v)}


def R(lo, hi):
    return {"k": "r", "lo": lit(lo), "hi": lit(hi)}


# ------------------------------------------------------------------------------------------ C15
def family_dist(tier, seed, n=None):
    out = []
    n = n or (16 if tier == "quick" else 200)
    for t in range(n):
        core = t < n // 2
        rnd = random.Random((1515 if core else 5100 + seed) * 100003 + t)
        w = 3
        nent = rnd.randint(2, 4)
        pts = sorted(rnd.sample(range(8), min(8, nent * 2)))
        ents = []
        i = 0
        while i < len(pts) and len(ents) < nent:
            if rnd.random() < 0.5 and i + 1 < len(pts):
                ents.append(R(pts[i], pts[i + 1]))
                i += 2
            else:
                ents.append(V(pts[i]))
                i += 1
        weights = [rnd.choice([0, 1, 1, 2, 3]) for _ in ents]
        if sum(weights) == 0:
            weights[0] = 1
        use_field_w = rnd.random() < 0.4
        ws = []
        for k_, (it, wt) in enumerate(zip(ents, weights)):
            ws.append(W(it, F("wk") if (use_field_w and k_ == 0) else wt))
        fields = [fld("a", w, False), fld("b", 2, False), fld("wk", 3, False, rand=False, init=weights[0])]
        body = [{"k": "dist", "e": F("a"), "ws": ws}]
        extra = rnd.random() < 0.5
        blocks = [blk("c1", body)]
        if extra:
            # accompanying hard constraint that cuts into the listed values (only the universal part is judged then)
            blocks.append(blk("c2", [E(B(rnd.choice(["ne", "le", "ge"]), F("a"), lit(rnd.randrange(8))))]))
        world = one(fields, blocks)
        ops = [{"op": "construct", "o": "o1"}, {"op": "call", "call": mcall()},
               {"op": "probe", "call": wcall(), "paths": ["o1.a", "o1.b"]},
               {"op": "explore", "call": mcall(), "paths": ["o1.a", "o1.b"], "dist_free": [] if extra else ["o1.a"]}]
        if use_field_w:
            nw = rnd.choice([0, 1, 2, 4])
            if nw == 0 and sum(weights[1:]) == 0:
                nw = 2
            ops += [{"op": "set", "p": "o1.wk", "v": bits(nw, 3)},
                    {"op": "probe", "call": wcall(), "paths": ["o1.a", "o1.b"]},
                    {"op": "explore", "call": mcall(), "paths": ["o1.a", "o1.b"], "dist_free": [] if extra else ["o1.a"]}]
        out.append({"id": "D15/%s/%d" % ("core" if core else "s%d" % seed, t), "world": world, "ops": ops, "tags": []})
    # two weights read from non-random fields are SWAPPED between calls: the same total, another distribution
    for t in range(2 if tier == "quick" else 6):
        w1, w2 = [(3, 1), (1, 2), (4, 1)][t % 3]
        fields = [fld("a", 3, False), fld("b", 1, False), fld("w1", 3, False, rand=False, init=w1), fld("w2", 3, False, rand=False, init=w2)]
        ws = [W(V(1), F("w1")), W(R(4, 5) if t % 2 == 0 else V(6), F("w2"))]
        world = one(fields, [blk("c1", [{"k": "dist", "e": F("a"), "ws": ws}])])
        ex = {"op": "explore", "call": mcall(), "paths": ["o1.a", "o1.b"], "dist_free": ["o1.a"]}
        ops = [{"op": "construct", "o": "o1"}, {"op": "call", "call": mcall()}, dict(ex),
               {"op": "set", "p": "o1.w1", "v": bits(w2, 3)}, {"op": "set", "p": "o1.w2", "v": bits(w1, 3)}, dict(ex),
               {"op": "call", "call": mcall()}, {"op": "set", "p": "o1.w1", "v": bits(w1, 3)}, {"op": "set", "p": "o1.w2", "v": bits(w2, 3)}, dict(ex)]
        out.append({"id": "D15/swap/%d" % t, "world": world, "ops": ops, "tags": []})
    # bounds, values and weights that are EXPRESSIONS over non-random fields (c + 1 .. d + 1 with weight k + 1): each operand
    # keeps its place
    for t in range(3 if tier == "quick" else 9):
        rnd = random.Random(1530 + t)
        cv, dv, kv = rnd.choice([(1, 3), (0, 2), (2, 4)]), None, rnd.randrange(3)
        cv, dv = cv
        fields = [fld("a", 3, False), fld("b", 2, False), fld("c", 3, False, rand=False, init=cv), fld("d", 3, False, rand=False, init=dv),
                  fld("k", 3, False, rand=False, init=kv)]
        ws = [{"it": {"k": "r", "lo": B("add", F("c"), lit(1)), "hi": B("add", F("d"), lit(1))}, "w": B("add", F("k"), lit(1))},
              {"it": {"k": "v", "e": B("add", F("d"), lit(2))}, "w": F("k") if t % 3 == 0 else lit(2)}]          # (d + 2 <= 7: inside the type of a)
        if t % 2 == 1:
            ws.append({"it": {"k": "r", "lo": F("c"), "hi": F("c")}, "w": B("sub", F("k"), F("k"))})          # weight 0
        world = one(fields, [blk("c1", [{"k": "dist", "e": F("a"), "ws": ws}])])
        ex = {"op": "explore", "call": mcall(), "paths": ["o1.a", "o1.b"], "dist_free": ["o1.a"]}
        ops = [{"op": "construct", "o": "o1"}, {"op": "call", "call": mcall()}, {"op": "probe", "call": wcall(), "paths": ["o1.a", "o1.b"]}, dict(ex),
               {"op": "set", "p": "o1.k", "v": bits(3 - kv, 3)}, {"op": "set", "p": "o1.d", "v": bits(dv + 1, 3)},
               {"op": "probe", "call": wcall(), "paths": ["o1.a", "o1.b"]}, dict(ex)]
        out.append({"id": "D15/exprbounds/%d" % t, "world": world, "ops": ops, "tags": []})
    return out


def family_dist_foreach(tier, seed):
    """dist inside foreach with weights that depend on the index: an entry whose weight is zero FOR THAT ELEMENT is never
    produced there (tables + full support per element)"""
    out = []
    for t in range(3 if tier == "quick" else 12):
        rnd = random.Random(1530 + t + (0 if t < 2 else 100 * seed))
        n = 2 + t % 2
        fields = [fld("a", 2, False), {"name": "l", "kind": "list", "w": 2, "signed": False, "rand": True, "init": [0] * n, "cap": 4}]
        ix = {"k": "ix", "v": "i"}
        ws = [W(V(1), ix), W(V(2), B("sub", lit(n - 1), ix)), W(V(3), 1 if t % 2 else ix)]
        if t % 3 == 2:
            ws.append(W(R(0, 0), lit(1)))
        if t % 3 == 0:
            # a two-value range: both of its values are produced by every element that gives it weight
            ws = [W(R(0, 1), lit(1)), W(V(3), ix), W(R(2, 2), B("sub", lit(n - 1), ix))]
        body = [{"k": "foreach", "l": "l", "v": "i", "it": False, "idx": True,
                 "body": [{"k": "dist", "e": {"k": "sub", "l": "l", "i": ix, "p": ""}, "ws": ws}]}]
        world = one(fields, [blk("c1", body)])
        paths = ["o1.a"] + ["o1.l[%d]" % i for i in range(n)]
        ops = [{"op": "construct", "o": "o1"}, {"op": "call", "call": mcall()}, {"op": "call", "call": mcall()},
               {"op": "probe", "call": wcall(), "paths": paths},
               {"op": "explore", "call": mcall(), "paths": paths, "max_paths": 6000 if tier == "quick" else 60000}]
        out.append({"id": "D15/foreach/%d" % t, "world": world, "ops": ops, "tags": []})
    return out


def family_select(tier, seed):
    out = []
    vecs = [list(v) for L in (1, 2, 3, 4) for v in itertools.product(range(0, 4 if tier == "quick" else 5), repeat=L) if sum(v) > 0]
    rnd = random.Random(1516)
    if tier == "quick":
        vecs = rnd.sample(vecs, 80)
    per = 10
    world = one([fld("a", 1, False)], [])
    for c in range(0, len(vecs), per):
        ops = []
        for v in vecs[c:c + per]:
            ops.append({"op": "select", "kind": "distselect", "weights": v})
            ops.append({"op": "select", "kind": "randselect", "weights": v})
        out.append({"id": "SEL/%d" % c, "world": world, "ops": ops, "tags": []})
    return out


# ------------------------------------------------------------------------------------------ C20
def family_order(tier, seed, n=None):
    out = []
    n = n or (10 if tier == "quick" else 120)
    for t in range(n):
        core = t < n // 2
        rnd = random.Random((2020 if core else 5200 + seed) * 100003 + t)
        wa, wb = rnd.choice([(2, 2), (2, 2), (2, 3), (3, 2)] if tier == "quick" else [(2, 2), (2, 3), (3, 2), (3, 3)])
        kind = rnd.choice(["lt", "imp", "sum", "chain", "list"])
        fields = [fld("a", wa, False), fld("b", wb, False)]
        order = {"k": "order", "a": ["a"], "b": ["b"]}
        if kind == "lt":
            body = [E(B(rnd.choice(["lt", "le", "ne"]), F("a"), F("b")))]
        elif kind == "imp":
            body = [{"k": "imp", "c": B("eq", F("a"), lit(0)), "body": [E(B("eq", F("b"), lit(rnd.randrange(1 << wb))))]}]
        elif kind == "sum":
            body = [E(B("le", B("add", F("a"), F("b")), lit(rnd.randint(1, (1 << wb)))))]
        elif kind == "chain":
            fields.append(fld("c", 2, False))
            body = [E(B("le", F("a"), F("b"))), E(B("le", F("b"), F("c"))), {"k": "order", "a": ["b"], "b": ["c"]}]
        else:
            fields.append(fld("c", 2, False))
            body = [E(B("lt", F("a"), F("b"))), E(B("ne", F("c"), F("b")))]
            order = {"k": "order", "a": ["a"], "b": ["b", "c"]}
        paths = ["o1." + f["name"] for f in fields]
        world = one(fields, [blk("c1", body + [order])])
        world_no = one(fields, [blk("c1", body)])
        mp = 6000 if tier == "quick" else 60000
        ops = [{"op": "construct", "o": "o1"}, {"op": "call", "call": mcall()},
               {"op": "probe", "call": wcall(), "paths": paths},
               {"op": "explore", "call": mcall(), "paths": paths, "uniform": ["o1.a"], "max_paths": mp}]
        out.append({"id": "O20/%s/%s/%d" % (kind, "core" if core else "s%d" % seed, t), "world": world, "ops": ops, "tags": []})
        # the same program without the directive: identical truth table (the directive has no hard meaning)
        out.append({"id": "O20n/%s/%s/%d" % (kind, "core" if core else "s%d" % seed, t), "world": world_no,
                    "ops": [{"op": "construct", "o": "o1"}, {"op": "probe", "call": wcall(), "paths": paths}], "tags": []})
    mp = 6000 if tier == "quick" else 60000
    # (a) the set of directives changes between calls of one object: opposite solve_order statements in two blocks that
    #     are toggled with constraint_mode - each call must honour exactly the enabled one
    for t in range(2 if tier == "quick" else 6):
        rnd = random.Random(2030 + t)
        fields = [fld("a", 2, False), fld("b", 2, False)]
        rel = rnd.choice(["lt", "le", "ne"])
        blocks = [blk("c1", [E(B(rel, F("a"), F("b")))]),
                  blk("oa", [{"k": "order", "a": ["a"], "b": ["b"]}]),
                  blk("ob", [{"k": "order", "a": ["b"], "b": ["a"]}])]
        world = one(fields, blocks)
        ops = [{"op": "construct", "o": "o1"}, {"op": "cmode", "o": "o1", "b": "ob", "en": False},
               {"op": "explore", "call": mcall(), "paths": ["o1.a", "o1.b"], "uniform": ["o1.a"], "max_paths": mp},
               {"op": "cmode", "o": "o1", "b": "oa", "en": False}, {"op": "cmode", "o": "o1", "b": "ob", "en": True},
               {"op": "explore", "call": mcall(), "paths": ["o1.a", "o1.b"], "uniform": ["o1.b"], "max_paths": mp},
               {"op": "cmode", "o": "o1", "b": "ob", "en": False}, {"op": "cmode", "o": "o1", "b": "oa", "en": True},
               {"op": "explore", "call": mcall(), "paths": ["o1.a", "o1.b"], "uniform": ["o1.a"], "max_paths": mp}]
        out.append({"id": "O20/toggle/%d" % t, "world": world, "ops": ops, "tags": []})
    # (b) a chain a -> b -> c whose first variable is pinned by a constraint: the marginal of the MIDDLE variable is then its
    #     conditional distribution and must not depend on how many values of the last variable accompany it
    for t in range(2 if tier == "quick" else 6):
        rnd = random.Random(2040 + t)
        fields = [fld("a", 2, False), fld("b", 2, False), fld("c", 2, False)]
        body = [E(B("eq", F("a"), lit(rnd.randrange(2)))), E(B(rnd.choice(["le", "lt"]), F("b"), F("c"))) if t % 2 == 0 else E(B("ge", F("b"), F("c"))),
                {"k": "order", "a": ["a"], "b": ["b"]}, {"k": "order", "a": ["b"], "b": ["c"]}]
        world = one(fields, [blk("c1", body)])
        ops = [{"op": "construct", "o": "o1"},
               {"op": "explore", "call": mcall(), "paths": ["o1.a", "o1.b", "o1.c"], "uniform": ["o1.b"], "max_paths": mp}]
        out.append({"id": "O20/chainmid/%d" % t, "world": world, "ops": ops, "tags": []})
    # (c) a signed earlier variable whose feasible range straddles zero and is not a power-of-two wide
    for t, (lo_, hi_) in enumerate([(-3, 2), (-2, 1), (-3, 3)][:2 if tier == "quick" else 3]):
        fields = [fld("a", 3, True), fld("b", 2, False)]
        body = [E(B("ge", F("a"), lit(lo_))), E(B("le", F("a"), lit(hi_))),
                {"k": "imp", "c": B("lt", F("a"), lit(0)), "body": [E(B("eq", F("b"), lit(1)))]},
                {"k": "order", "a": ["a"], "b": ["b"]}]
        world = one(fields, [blk("c1", body)])
        ops = [{"op": "construct", "o": "o1"},
               {"op": "explore", "call": mcall(), "paths": ["o1.a", "o1.b"], "uniform": ["o1.a"], "max_paths": mp}]
        out.append({"id": "O20/signed/%d" % t, "world": world, "ops": ops, "tags": []})
    # (d) the earlier variable is an enum field (its enumerators fill the inferred range), also as the LATER variable
    for t in range(2 if tier == "quick" else 6):
        rnd = random.Random(2050 + t)
        vals = [[0, 1], [0, 1, 2], [0, 1, 2, 3], [1, 2]][t % 4]
        fe = {"name": "e", "kind": "enum", "values": vals, "rand": True, "init": vals[0]}
        fields = [fe, fld("b", 2, False)]
        first = "e" if t % 3 != 2 else "b"
        second = "b" if first == "e" else "e"
        body = [{"k": "imp", "c": B("eq", F(first), lit(vals[0] if first == "e" else 0)), "body": [E(B("eq", F(second), lit(vals[-1] if second == "e" else rnd.randrange(4))))]},
                {"k": "order", "a": [first], "b": [second]}]
        world = one(fields, [blk("c1", body)])
        ops = [{"op": "construct", "o": "o1"}, {"op": "probe", "call": wcall(), "paths": ["o1.e", "o1.b"]},
               {"op": "explore", "call": mcall(), "paths": ["o1.e", "o1.b"], "uniform": ["o1." + first], "max_paths": mp}]
        out.append({"id": "O20/enum/%d" % t, "world": world, "ops": ops, "tags": []})
    # (e) an ordering stage of MORE than four variables (four are pinned by constraints, one is free): each of them is decided
    #     in its stage, whichever subset the randomizer happens to pick first
    for t in range(1 if tier == "quick" else 3):
        fields = [fld("f%d" % i, 1, False) for i in range(5)] + [fld("b", 2, False)]
        free = [4, 0, 2][t]
        body = [E(B("eq", F("f%d" % i), lit((i + t) % 2))) for i in range(5) if i != free] + \
               [{"k": "imp", "c": B("eq", F("f%d" % free), lit(0)), "body": [E(B("eq", F("b"), lit(0)))]},
                # a trivially true relation over all six: it only puts them into one set of related variables
                E(B("ge", B("or", B("or", B("or", F("f0"), F("f1")), B("or", F("f2"), F("f3"))), B("or", F("f4"), F("b"))), lit(0))),
                {"k": "order", "a": ["f%d" % i for i in range(5)], "b": ["b"]}]
        world = one(fields, [blk("c1", body)])
        paths = ["o1.f%d" % i for i in range(5)] + ["o1.b"]
        ops = [{"op": "construct", "o": "o1"},
               {"op": "explore", "call": mcall(), "paths": paths, "uniform": ["o1.f%d" % free], "max_paths": 40000}]
        out.append({"id": "O20/widestage/%d" % t, "world": world, "ops": ops, "tags": []})
    # (f) an ordering stage that mixes a random field with one that is NOT random in the call (a plain attribute, or rand_mode
    #     off): the random one is still decided in its stage, uniformly over its feasible values
    for t in range(2 if tier == "quick" else 6):
        rnd = random.Random(2060 + t)
        nonrand = t % 2 == 0
        fields = [fld("a", 2, False), fld("k", 1, False, rand=not nonrand, init=t % 2), fld("b", 1, False)]
        body = [E(B("le", F("b"), B("and", F("a"), B("add", F("k"), lit(1))))) if t % 3 != 2 else
                {"k": "imp", "c": B("eq", F("a"), lit(0)), "body": [E(B("eq", F("b"), F("k")))]},
                {"k": "order", "a": ["a", "k"] if t % 4 < 2 else ["k", "a"], "b": ["b"]}]
        world = one(fields, [blk("c1", body)])
        ops = [{"op": "construct", "o": "o1"}]
        paths = ["o1.a", "o1.b"]
        if not nonrand:
            ops.append({"op": "rand_mode", "p": "o1.k", "b": False})
        ops += [{"op": "explore", "call": mcall(), "paths": paths, "uniform": ["o1.a"], "max_paths": mp},
                {"op": "set", "p": "o1.k", "v": bits(1 - t % 2, 1)},
                {"op": "explore", "call": mcall(), "paths": paths, "uniform": ["o1.a"], "max_paths": mp}]
        if not nonrand:
            # ... and with the field random again the stage decides both
            ops += [{"op": "rand_mode", "p": "o1.k", "b": True},
                    {"op": "explore", "call": mcall(), "paths": ["o1.a", "o1.k", "o1.b"], "uniform": [], "max_paths": mp}]
        out.append({"id": "O20/mixedstage/%d" % t, "world": world, "ops": ops, "tags": []})
    # (g) a LIST named first in solve_order: every element is decided before the later variable - on the first call, on later
    #     calls, and after the user rebuilt the list with the same number of (new) elements
    for t in range(2 if tier == "quick" else 6):
        rnd = random.Random(2070 + t)
        nel = 2 if t % 2 == 0 else 3
        fields = [{"name": "l", "kind": "list", "w": 1, "signed": False, "rand": True, "init": [0] * nel, "randsz": False, "cap": 4},
                  fld("x", 2, False)]
        body = [{"k": "foreach", "l": "l", "v": "i", "it": True, "idx": False,
                 "body": [{"k": "imp", "c": B("eq", {"k": "it", "v": "i", "p": ""}, lit(1)), "body": [E(B("eq", F("x"), lit(t % 4)))]}]},
                {"k": "order", "a": ["l"], "b": ["x"]}]
        world = one(fields, [blk("c1", body)])
        elems = ["o1.l[%d]" % i for i in range(nel)]
        ex = {"op": "explore", "call": mcall(), "paths": elems + ["o1.x"], "uniform": elems, "max_paths": mp}
        ops = [{"op": "construct", "o": "o1"}, dict(ex), {"op": "call", "call": mcall()}, dict(ex),
               {"op": "list", "kind": "l_clear", "p": "o1.l"}, {"op": "list", "kind": "l_extend", "p": "o1.l", "vs": [bits(0, 1)] * nel},
               dict(ex), {"op": "call", "call": mcall()},
               {"op": "list", "kind": "l_assign", "p": "o1.l", "vs": [bits(1, 1)] * nel}, dict(ex)]
        out.append({"id": "O20/listfirst/%d" % t, "world": world, "ops": ops, "tags": []})
    # program pairs that agree on Feasible(a) and differ only in how many b accompany each a
    for t in range(2 if tier == "quick" else 8):
        rnd = random.Random(2021 + t)
        k1, k2 = rnd.sample(range(1, 4), 2)
        fields = [fld("a", 2, False), fld("b", 2, False), fld("k", 2, False, rand=False, init=k1)]
        # b <= k when a == 0, else b free: the number of b per a changes with k, Feasible(a) does not
        body = [{"k": "imp", "c": B("eq", F("a"), lit(0)), "body": [E(B("le", F("b"), F("k")))]},
                {"k": "order", "a": ["a"], "b": ["b"]}]
        world = one(fields, [blk("c1", body)])
        mp = 6000 if tier == "quick" else 60000
        ops = [{"op": "construct", "o": "o1"},
               {"op": "explore", "call": mcall(), "paths": ["o1.a", "o1.b"], "memo_put": "m", "uniform": ["o1.a"], "max_paths": mp},
               {"op": "set", "p": "o1.k", "v": bits(k2, 2)},
               {"op": "explore", "call": mcall(), "paths": ["o1.a", "o1.b"], "memo_eq": "m", "uniform": ["o1.a"], "max_paths": mp}]
        out.append({"id": "O20/pair/%d" % t, "world": world, "ops": ops, "tags": []})
    return out


# ------------------------------------------------------------------------------------------ C14
def family_starve(tier, seed, n=None):
    """no legal value is starved: exact marginal supports on micro-programs + inferred bounds (hook) on larger ones"""
    out = []
    n = n or (26 if tier == "quick" else 260)
    kinds = ["rel_nr", "nr_rel", "in_rl", "rel_lit", "two", "arith_nr", "disabled", "unmentioned", "mixed_sign",
             "cond_in", "nr_arith_left", "cond_in", "nr_arith_left"]
    for t in range(n):
        core = t < n // 2
        rnd = random.Random((1414 if core else 5300 + seed) * 100003 + t)
        kind = kinds[t % len(kinds)]
        sa = kind == "mixed_sign" or rnd.random() < 0.2
        fields = [fld("a", 2 if not sa else 3, sa), fld("b", 2, False), fld("c", 2, rnd.random() < 0.3, rand=False, init=rnd.randrange(4)),
                  fld("d", 2, False, rand=False, init=rnd.randrange(4))]
        rel = rnd.choice(RELS)
        blocks = []
        if kind == "rel_nr":
            body = [E(B(rel, F("a"), F("c")))]
        elif kind == "nr_rel":
            body = [E(B(rel, F("c"), F("a")))]
        elif kind == "in_rl":
            body = [E({"k": "in", "e": F("a"), "items": [{"k": "r", "lo": F("c"), "hi": F("d")}, {"k": "v", "e": lit(rnd.randrange(4))},
                                                          {"k": "r", "lo": lit(1), "hi": lit(2)}], "neg": False})]
        elif kind == "rel_lit":
            body = [E(B(rel, F("a"), lit(rnd.choice([-1, 0, 1, 2, 3])))), E(B(rnd.choice(RELS), lit(rnd.choice([0, 1, 2])), F("b")))]
        elif kind == "two":
            body = [E(B(rel, F("a"), F("b"))), E(B(rnd.choice(["le", "ge"]), F("b"), F("c")))]
        elif kind == "arith_nr":
            body = [E(B(rel, F("a"), B(rnd.choice(["add", "sub", "and", "xor"]), F("c"), F("d"))))]
        elif kind == "cond_in":
            # a membership under ONE conditional level: it limits a only in the solutions where the condition holds
            cond = B("eq", F("b"), lit(rnd.randrange(2)))
            mem = E({"k": "in", "e": F("a"), "items": [{"k": "v", "e": lit(v)} for v in rnd.sample(range(4), 2)], "neg": False})
            body = [{"k": "if", "arms": [{"c": cond, "body": [mem]}], "els": []}] if rnd.random() < 0.5 else \
                   [{"k": "imp", "c": cond, "body": [mem]}]
        elif kind == "nr_arith_left":
            # a non-random EXPRESSION (not a bare field) on the left of the relation
            body = [E(B(["ge", "le", "gt", "lt"][(t // len(kinds)) % 4], B(rnd.choice(["add", "or"]), F("c"), F("d")), F("a"))),
                    E(B("ge", F("a"), lit(rnd.choice([0, 1]))))]
        elif kind == "disabled":
            body = [E(B("le", F("a"), F("b")))]
            blocks.append(blk("c9", [E(B("eq", F("a"), lit(0))), E(B("lt", F("b"), lit(2)))]))
        elif kind == "unmentioned":
            body = [E(B(rel, F("b"), F("c")))]
        else:
            body = [E(B(rel, F("a"), F("c"))), E(B(rnd.choice(RELS), F("a"), lit(rnd.choice([-2, -1, 0, 1]))))]
        blocks.insert(0, blk("c1", body))
        world = one(fields, blocks)
        ops = [{"op": "construct", "o": "o1"}]
        if kind == "disabled":
            ops.append({"op": "cmode", "o": "o1", "b": "c9", "en": False})
        for rep in range(2):
            # previous values left by earlier calls / assignments, different non-random environments
            ops.append({"op": "set", "p": "o1.a", "v": bits(rnd.choice([0, 3, 7]) & ((1 << fields[0]["w"]) - 1), fields[0]["w"])})
            ops.append({"op": "set", "p": "o1.c", "v": bits(rnd.randrange(2) if kind == "nr_arith_left" else rnd.randrange(4), 2)})
            ops.append({"op": "set", "p": "o1.d", "v": bits(rnd.randrange(3) if kind == "nr_arith_left" else rnd.randrange(4), 2)})
            ops.append({"op": "call", "call": mcall()})
            ops.append({"op": "explore", "call": mcall(), "paths": ["o1.a", "o1.b"], "max_paths": 4000 if tier == "quick" else 40000})
        out.append({"id": "S14/%s/%s/%d" % (kind, "core" if core else "s%d" % seed, t), "world": world, "ops": ops, "tags": []})
    # (h) bounds taken from a non-random EXPRESSION that is evaluated with integers: the sum / product of a non-random list whose
    #     length changes between calls; a signed division with a negative divisor; memberships of a signed field in a range
    #     whose limits are unsigned fields (an unsigned comparison: the feasible values are negative); negative single values
    m = 10 if tier == "quick" else 60
    for t in range(m):
        core = t < (m + 1) // 2
        rnd = random.Random((1424 if core else 5400 + seed) * 100003 + t)
        kind = ["nr_sum", "nr_div", "in_mixed", "in_negval", "mixed_rel"][t % 5]
        mp = 4000 if tier == "quick" else 40000
        ops = [{"op": "construct", "o": "o1"}]
        if kind == "nr_sum":
            agg = "sum" if t % 8 < 4 else "prod"
            fields = [fld("a", 3, False), fld("b", 1, False),
                      {"name": "nl", "kind": "list", "w": 2, "signed": False, "rand": False, "init": [1, 1], "randsz": False, "cap": 4}]
            body = [E(B(rnd.choice(["le", "lt", "le"]), F("a"), {"k": agg, "l": "nl"}))]
            ex = {"op": "explore", "call": mcall(), "paths": ["o1.a", "o1.b"], "max_paths": mp}
            # (the exploration follows the edit DIRECTLY: the first call after the list changed is the one that matters)
            ops += [{"op": "call", "call": mcall()}, dict(ex),
                    {"op": "list", "kind": "l_append", "p": "o1.nl", "vs": [bits(rnd.choice([2, 3]), 2)]}, dict(ex), {"op": "call", "call": mcall()}, dict(ex),
                    {"op": "list", "kind": "l_setitem", "p": "o1.nl", "i": 0, "vs": [bits(2, 2)]}, dict(ex),
                    {"op": "list", "kind": "l_assign", "p": "o1.nl", "vs": [bits(1, 2)]}, dict(ex),
                    {"op": "call", "call": wcall([E(B("gt", F("a"), lit(7)))])},              # a failing call in between
                    {"op": "list", "kind": "l_extend", "p": "o1.nl", "vs": [bits(1, 2), bits(2, 2)]}, dict(ex)]
        elif kind == "nr_div":
            fields = [fld("a", 3, True), fld("b", 1, False), fld("c", 3, True, rand=False, init=-3), fld("d", 3, True, rand=False, init=-2)]
            op_ = rnd.choice(["div", "div", "mod"])
            body = [E(B(["le", "ge", "lt", "gt"][(t // 4) % 4], F("a"), B(op_, F("c"), F("d"))))]
            ex = {"op": "explore", "call": mcall(), "paths": ["o1.a", "o1.b"], "max_paths": mp}
            for cv, dv in [(-3, -2), (3, -2), (-4, 3), (rnd.randrange(-4, 4), rnd.choice([-3, -2, -1, 1, 2, 3])), (-4, -1)][:4 if tier == "quick" else 5]:
                ops += [{"op": "set", "p": "o1.c", "v": bits(cv, 3)}, {"op": "set", "p": "o1.d", "v": bits(dv, 3)}, dict(ex)]
        elif kind == "mixed_rel":
            # a signed random field ordered against an UNSIGNED non-random one: an unsigned comparison, negative values of a are
            # large - whatever value an earlier call left in a
            fields = [fld("a", 3, True), fld("b", 1, False), fld("c", 2, False, rand=False, init=1)]
            body = [E(B(["gt", "ge", "gt", "lt"][(t // 5) % 4], F("a"), F("c")))]
            if t % 2 == 0:
                body.append(E({"k": "in", "e": F("a"), "items": [{"k": "r", "lo": lit(-4), "hi": lit(-3)}, {"k": "r", "lo": lit(1), "hi": lit(3)}], "neg": False}))
            ex = {"op": "explore", "call": mcall(), "paths": ["o1.a", "o1.b"], "max_paths": mp}
            for av, cv in [(0, 1), (3, 2), (-1, 1), (2, 0)]:
                ops += [{"op": "set", "p": "o1.a", "v": bits(av, 3)}, {"op": "set", "p": "o1.c", "v": bits(cv, 2)}, dict(ex)]
        elif kind == "in_mixed":
            # lo / hi are UNSIGNED fields, a is signed: the limits and a are compared as unsigned numbers
            fields = [fld("a", 3, True), fld("b", 1, False), fld("c", 3, False, rand=False, init=4), fld("d", 3, False, rand=False, init=6)]
            body = [E({"k": "in", "e": F("a"), "items": [{"k": "r", "lo": F("c"), "hi": F("d")}], "neg": False})]
            ex = {"op": "explore", "call": mcall(), "paths": ["o1.a", "o1.b"], "max_paths": mp}
            for cv, dv in [(4, 6), (2, 5), (0, 7), (5, 5)]:
                ops += [{"op": "set", "p": "o1.c", "v": bits(cv, 3)}, {"op": "set", "p": "o1.d", "v": bits(dv, 3)}, dict(ex)]
        else:
            # a domain of SEVERAL parts on a field wider than the parts: single values (negative ones too) and short ranges whose
            # low bits also occur in another part (1 and 5, -3 and 1 ...)
            sg = t % 8 < 4
            fields = [fld("a", 3 if sg else 4, sg), fld("b", 1, False), fld("c", 3, True, rand=False, init=-2)]
            if sg:
                vs = rnd.sample([-4, -3, -2, -1, 3], 2) + [-3 if t % 16 < 8 else -1]
                items = [{"k": "v", "e": lit(v)} for v in vs] + [{"k": "r", "lo": lit(1), "hi": lit(2)}]
            else:
                items = [{"k": "r", "lo": lit(1), "hi": lit(2)}, {"k": "v", "e": lit(5)}, {"k": "v", "e": lit(rnd.choice([9, 10, 13]))}, {"k": "r", "lo": lit(6), "hi": lit(7)}]
            body = [E({"k": "in", "e": F("a"), "items": items + ([{"k": "v", "e": F("c")}] if sg and t % 16 >= 8 else []), "neg": False})]
            ex = {"op": "explore", "call": mcall(), "paths": ["o1.a", "o1.b"], "max_paths": mp}
            ops += [dict(ex), {"op": "call", "call": mcall()}, {"op": "set", "p": "o1.c", "v": bits(-4, 3)}, dict(ex)]
        out.append({"id": "S14/%s/%s/%d" % (kind, "core" if core else "s%d" % seed, t), "world": one(fields, [blk("c1", body)]), "ops": ops, "tags": []})
    # free-standing calls whose roots OVERLAP: a non-random member passed together with its owner is random in the call, in
    # either order of the arguments (the second order is the witness of known finding C14-overlapping-roots-order)
    for t, roots in enumerate([["o1", "o1.s"], ["o1.s", "o1"]]):
        sub = {"base": "", "fields": [fld("x", 2, False)], "blocks": []}
        top = {"base": "", "fields": [fld("a", 1, False), {"name": "s", "kind": "obj", "cls": "S", "rand": False}], "blocks": []}
        world = {"classes": {"S": sub, "A": top}, "population": [{"id": "o1", "cls": "A"}]}
        call = {"kind": "free", "roots": roots, "owner": "", "inline": []}
        ops = [{"op": "construct", "o": "o1"}, {"op": "call", "call": call},
               {"op": "explore", "call": call, "paths": ["o1.a", "o1.s.x"], "max_paths": 4000}]
        out.append({"id": "S14/witness/rootorder/%d" % t, "world": world, "ops": ops, "tags": []})
    # a NON-RANDOM member object whose own block its current values violate: the block takes no part, the member's fields are
    # constants - the range inferred for the owner's fields must not be narrowed by that block
    for t in range(2 if tier == "quick" else 6):
        rnd = random.Random(1490 + t)
        sub = {"base": "", "fields": [fld("x", 2, False)], "blocks": [blk("sc", [E(B("lt", F("x"), lit(1)))])]}
        top = {"base": "", "fields": [fld("a", 2, False), fld("b", 2, False), {"name": "s", "kind": "obj", "cls": "S", "rand": False}],
               "blocks": [blk("c1", [E(B(["le", "ne"][t % 2], F("a"), F("s.x"))), E(B("le", F("b"), F("a")))])]}
        world = {"classes": {"S": sub, "A": top}, "population": [{"id": "o1", "cls": "A"}]}
        ops = [{"op": "construct", "o": "o1"}, {"op": "set", "p": "o1.s.x", "v": bits(3 - t % 2, 2)}, {"op": "call", "call": mcall()},
               {"op": "probe", "call": wcall(), "paths": ["o1.a", "o1.b"]},
               {"op": "explore", "call": mcall(), "paths": ["o1.a", "o1.b"], "max_paths": 6000 if tier == "quick" else 60000}]
        out.append({"id": "S14/nonrand_member/%d" % t, "world": world, "ops": ops, "tags": []})
    # an enum whose enumerators are DECLARED in non-ascending order, narrowed by a membership or a relation
    for t in range(3 if tier == "quick" else 9):
        rnd = random.Random(1480 + t)
        vals = [[5, 2, 11], [7, 1, 4, 0], [3, 9, 6]][t % 3]
        fe = {"name": "e", "kind": "enum", "values": vals, "rand": True, "init": vals[0]}
        fields = [fe, fld("b", 2, False)]
        if t % 3 == 0:
            body = [E({"k": "in", "e": F("e"), "items": [{"k": "v", "e": lit(v)} for v in sorted(vals)[:2]] + [{"k": "v", "e": lit(sorted(vals)[-1])}], "neg": False})]
        elif t % 3 == 1:
            body = [E(B("ge", F("e"), lit(sorted(vals)[1])))]
        else:
            body = [E(B("le", F("e"), lit(sorted(vals)[1]))), E(B("ne", F("b"), lit(0)))]
        world = one(fields, [blk("c1", body)])
        ops = [{"op": "construct", "o": "o1"}, {"op": "call", "call": mcall()}, {"op": "probe", "call": wcall(), "paths": ["o1.e", "o1.b"]},
               {"op": "explore", "call": mcall(), "paths": ["o1.e", "o1.b"], "max_paths": 6000 if tier == "quick" else 60000}]
        out.append({"id": "S14/enum_unsorted/%d" % t, "world": world, "ops": ops, "tags": []})
    # a dist nested under a condition confines its field only where the condition holds: elsewhere every value stays reachable
    for t in range(3 if tier == "quick" else 9):
        rnd = random.Random(1470 + t)
        fields = [fld("a", 2, False), fld("b", 1, False), fld("k", 2, False, rand=False, init=rnd.randrange(4))]
        vs = rnd.sample(range(4), 2)
        dist = {"k": "dist", "e": F("a"), "ws": [W(V(vs[0]), 1), W(V(vs[1]), rnd.choice([0, 2]))]}
        cond = B("eq", F("b"), lit(t % 2)) if t % 3 != 2 else B("le", F("k"), lit(1))
        if t % 2 == 0:
            body = [{"k": "if", "arms": [{"c": cond, "body": [dist]}], "els": [E(B("ne", F("a"), lit(vs[0])))] if t % 4 == 0 else []}]
        else:
            body = [{"k": "imp", "c": cond, "body": [dist]}]
        world = one(fields, [blk("c1", body)])
        ops = [{"op": "construct", "o": "o1"}, {"op": "call", "call": mcall()},
               {"op": "probe", "call": wcall(), "paths": ["o1.a", "o1.b"]},
               {"op": "explore", "call": mcall(), "paths": ["o1.a", "o1.b"], "max_paths": 6000 if tier == "quick" else 60000},
               {"op": "set", "p": "o1.k", "v": bits(3 - fields[2]["init"], 2)},
               {"op": "explore", "call": mcall(), "paths": ["o1.a", "o1.b"], "max_paths": 6000 if tier == "quick" else 60000}]
        out.append({"id": "S14/cond_dist/%d" % t, "world": world, "ops": ops, "tags": []})
    # a field that shares constraints with ORDERED fields but is named in no solve_order: still ranges over all its feasible values
    for t in range(2 if tier == "quick" else 6):
        rnd = random.Random(1450 + t)
        fields = [fld("a", 1, False), fld("b", 2, False), fld("d", 2, False)]
        body = [{"k": "imp", "c": B("eq", F("a"), lit(0)), "body": [E(B("eq", F("b"), lit(rnd.randrange(4))))]},
                E(B(rnd.choice(["le", "ne", "ge"]), F("d"), F("b"))) if t % 2 == 0 else E(B("ne", B("add", F("d"), F("a")), F("b"))),
                {"k": "order", "a": ["a"], "b": ["b"]}]
        world = one(fields, [blk("c1", body)])
        ops = [{"op": "construct", "o": "o1"}, {"op": "call", "call": mcall()},
               {"op": "explore", "call": mcall(), "paths": ["o1.a", "o1.b", "o1.d"], "uniform": ["o1.a"], "max_paths": 6000 if tier == "quick" else 60000}]
        out.append({"id": "S14/order_rest/%d" % t, "world": world, "ops": ops, "tags": []})
    return out
