"""C16 - a failed or aborted call does not poison later calls."""
from .. import engine, fam_tree, fam_fault

LEVEL = "model_checking"


def run(tier, seed, limit=0):
    chk = engine.Check("C16", tier, seed)
    scs = (fam_tree.family_T(tier, seed, faults=True, probes=True, tag="T16") + fam_tree.family_ctor_fault(tier, seed)
           + fam_fault.family_F(tier, seed) + fam_fault.family_softlist(tier, seed) + fam_fault.family_nested_fault(tier, seed)
           + fam_fault.family_softprio_after_fail(tier, seed) + fam_fault.family_randsz_after_fail(tier, seed) + fam_fault.family_bigcore(tier, seed)
           # scenarios of the other properties' families with an unsatisfiable call inserted before every call
           + fam_fault.family_after_failure(tier, seed))
    if limit:
        scs = scs[:limit]
    chk.run_scenarios(scs, "Trace_VscRand",
                      nontrivial=lambda r: any(e.get("fired") or e.get("exc") not in (None, "none") for e in r["events"]))
    chk.run_mc("B_Ctor", {"MaxOps": 3 if tier == "quick" else 4}, label="construction stacks idle between calls")
    return chk.finish(LEVEL, "histories with a user exception injected at every kind of position (pre/post callbacks of any composite, "
                      "with-block bodies, constraint bodies during construction - also INSIDE nested if / else / implies / foreach contexts, every "
                      "statement position of the nested blocks) and calls made unsatisfiable, followed by further "
                      "constructions, calls and pin-probe truth tables; after EVERY event TLC checks the five construction stacks, the "
                      "leftover override nodes and solver handles are zero, and that the rest of the trace is a behaviour of the "
                      "specification from the unchanged state; non-trivial = a fault fired or a call failed",
                      ["TLC 1.8; VscRand.tla; module state of vsc.impl.ctor / expr_mode read directly"])
