"""Running TLC: trace validation batches and model-checking jobs.  TLC is the only judge."""
import json
import os
import re
import shutil
import subprocess
import tempfile
import time

SPEC = os.path.join(os.path.dirname(os.path.dirname(os.path.abspath(__file__))), "spec")
JAR = "/opt/veriftools/tla/tla2tools.jar:/opt/veriftools/tla/CommunityModules-deps.jar"
OUT = os.path.join(os.path.dirname(SPEC), "out")


class TlcError(Exception):
    """machinery failure (exit 2), never a verdict"""


def java_cmd(module, cfg, workers=1, extra=(), metadir=None):
    return ["java", "-Xss512m", "-Xmx3g", "-XX:+UseParallelGC", "-cp", JAR, "tlc2.TLC",
            "-workers", str(workers), "-metadir", metadir, "-noGenerateSpecTE",
            "-config", cfg, *extra, module]


def run_tlc(module, cfg=None, workers=1, env=None, timeout=3600, extra=()):
    """returns (stdout, wall seconds)"""
    cfg = cfg or module.replace(".tla", ".cfg")
    md = tempfile.mkdtemp(prefix="tlcmeta_", dir=OUT if os.path.isdir(OUT) else None)
    e = dict(os.environ)
    e.update(env or {})
    t0 = time.time()
    try:
        p = subprocess.run(java_cmd(module, cfg, workers, extra, md), cwd=SPEC, env=e, capture_output=True,
                           text=True, timeout=timeout)
    except subprocess.TimeoutExpired as ex:
        raise TlcError("TLC timeout on %s after %ss" % (module, timeout)) from ex
    finally:
        shutil.rmtree(md, ignore_errors=True)
    return p.stdout + p.stderr, time.time() - t0


# ---------------------------------------------------------------- TLA+ value printing parser
def freeze(v):
    if isinstance(v, list):
        return tuple(freeze(x) for x in v)
    if isinstance(v, dict):
        return tuple(sorted((k, freeze(x)) for k, x in v.items()))
    if isinstance(v, set):
        return frozenset(freeze(x) for x in v)
    return v


def parse_tla(s):
    """parse a printed TLA+ value (tuples <<>>, sets {}, strings, ints, TRUE/FALSE, records)"""
    pos = 0

    def ws():
        nonlocal pos
        while pos < len(s) and s[pos] in " \n\r\t":
            pos += 1

    def val():
        nonlocal pos
        ws()
        if s.startswith("<<", pos):
            pos += 2
            items = []
            ws()
            if s.startswith(">>", pos):
                pos += 2
                return items
            while True:
                items.append(val())
                ws()
                if s.startswith(">>", pos):
                    pos += 2
                    return items
                assert s[pos] == ",", (s[pos:pos + 40])
                pos += 1
        if s[pos] == "{":
            pos += 1
            items = []
            ws()
            if s[pos] == "}":
                pos += 1
                return set()
            while True:
                v = val()
                items.append(freeze(v))
                ws()
                if s[pos] == "}":
                    pos += 1
                    return set(items)
                assert s[pos] == ","
                pos += 1
        if s[pos] == "[":
            pos += 1
            rec = {}
            while True:
                ws()
                m = re.match(r"([A-Za-z_0-9]+)\s*\|->", s[pos:])
                pos += m.end()
                rec[m.group(1)] = val()
                ws()
                if s[pos] == "]":
                    pos += 1
                    return rec
                assert s[pos] == ","
                pos += 1
        if s[pos] == '"':
            j = pos + 1
            while s[j] != '"':
                j += 2 if s[j] == "\\" else 1
            r = s[pos + 1:j]
            pos = j + 1
            return r
        m = re.match(r"-?\d+", s[pos:])
        if m:
            pos += m.end()
            return int(m.group(0))
        m = re.match(r"TRUE|FALSE", s[pos:])
        if m:
            pos += m.end()
            return m.group(0) == "TRUE"
        raise ValueError("cannot parse at %r" % s[pos:pos + 60])

    return val()


def extract_printed(out, tag):
    """find the PrintT(<<"tag", value>>) output and return the parsed value"""
    m = re.search(r'<<\s*"%s"' % tag, out)
    if not m:
        return None
    i = m.start()
    # bracket matching
    depth = 0
    j = i
    while j < len(out):
        if out.startswith("<<", j):
            depth += 1
            j += 2
            continue
        if out.startswith(">>", j):
            depth -= 1
            j += 2
            if depth == 0:
                break
            continue
        if out[j] == '"':
            j += 1
            while out[j] != '"':
                j += 1
        j += 1
    return parse_tla(out[i:j])[1]


def validate_batch(module, batch, workdir, name, timeout=3600):
    """write the batch, run the trace spec, return {scenario id: verdict tuple}, stats"""
    os.makedirs(workdir, exist_ok=True)
    path = os.path.join(workdir, name + ".json")
    with open(path, "w") as f:
        json.dump(batch, f)
    out, wall = run_tlc(module + ".tla", module + ".cfg", workers=1, env={"TRACE_FILE": path}, timeout=timeout)
    with open(os.path.join(workdir, name + ".tlc.log"), "w") as f:
        f.write(out)
    verdicts = extract_printed(out, "VERDICTS")
    if verdicts is None:
        raise TlcError("TLC produced no verdicts for %s (see %s.tlc.log):\n%s" % (name, os.path.join(workdir, name), out[-3000:]))
    res = {}
    for v in verdicts:
        res[v[0]] = v
    stats = {"wall": wall}
    m = re.search(r"(\d+) states generated, (\d+) distinct states found", out)
    if m:
        stats["generated"] = int(m.group(1))
        stats["distinct"] = int(m.group(2))
    acc = extract_printed(out, "EVENTS_ACCEPTED")
    stats["events_accepted"] = acc if isinstance(acc, int) else 0
    if len(res) != len(batch["scenarios"]):
        raise TlcError("verdict count mismatch for %s: %d vs %d" % (name, len(res), len(batch["scenarios"])))
    return res, stats


def model_check(module, cfg=None, workers=8, timeout=3600, extra=()):
    """exhaustive / simulation run of an MC or B module; returns dict(states, distinct, ok, out)"""
    out, wall = run_tlc(module, cfg, workers=workers, timeout=timeout, extra=extra)
    m = re.search(r"(\d+) states generated, (\d+) distinct states found", out)
    ok = ("Model checking completed. No error has been found" in out) or ("Finished in" in out and "Error:" not in out)
    viol = "is violated" in out or "Error:" in out
    return {"states": int(m.group(1)) if m else 0, "distinct": int(m.group(2)) if m else 0,
            "ok": ok and not viol, "violated": viol, "wall": wall, "out": out}
