CONSTANT MaxV = 6
CONSTANT MaxR = 3
CONSTANT MaxN = 4
SPECIFICATION Spec
INVARIANT PartitionExact
INVARIANT Ascending
CHECK_DEADLOCK FALSE
