CONSTANT Objs = {"o1", "o2"}
CONSTANT Names = {"s1"}
CONSTANT Seeds = {1}
CONSTANT MaxPos = 2
CONSTANT MaxDraws = 1
CONSTANT MaxCells = 4
CONSTANT CloneOnGet = TRUE
CONSTANT CloneOnSet = TRUE
SPECIFICATION Spec
INVARIANT Refines
INVARIANT NoAliasing
INVARIANT SamePointSameCell
CHECK_DEADLOCK FALSE
