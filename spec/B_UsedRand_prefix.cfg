CONSTANT LockNonCall = FALSE
CONSTANT MaxLevel = 5
SPECIFICATION Spec
CONSTRAINT Bound
PROPERTY SolvedIsUsedRand
CHECK_DEADLOCK FALSE
