--------------------------- MODULE MC_VscCov_sim ----------------------------
(***************************************************************************)
(* spec -> code for the coverage machine: MC_VscCov extended with the      *)
(* operation skeleton of each behaviour (`hist`).  Run in simulation mode; *)
(* at the requested depth every behaviour is printed as JSON, together     *)
(* with the world it was generated for, and replayed into the real         *)
(* library by harness/fam_cov.py (family_mc_cov); the recorded trace is    *)
(* then validated by Trace_VscCov like any other.                          *)
(***************************************************************************)
EXTENDS MC_VscCov, Json
CONSTANT MaxLevel
VARIABLE hist

SimInit == Init /\ hist = << >>
SimNext == \/ \E sh \in {"A", "B"} : New(sh) /\ hist' = Append(hist, [op |-> "new", shape |-> sh])
           \/ \E i \in 1..MaxInst : \E v \in Values :
                 Sample(i, v) /\ hist' = Append(hist, [op |-> "sample", inst |-> i, vals |-> v])
SimSpec == SimInit /\ [][SimNext]_<<S, hist>>

EmitAtDepth == IF Len(hist) = MaxLevel - 1
               THEN PrintT(<<"HIST", ToJson([world |-> W0, hist |-> hist])>>) ELSE TRUE
=============================================================================
