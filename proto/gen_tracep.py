import sys, json, io, contextlib, random
sys.path.insert(0,'/tmp/shim'); import btorshim
import vsc
from vsc.model.solve_failure import SolveFailure
def bits(v,w): return [((v & ((1<<w)-1))>>i)&1 for i in range(w)]
def lit(v): return {"k":"lit","w":32,"s":True,"bits":bits(v,32)}
def f(n): return {"k":"field","name":n}
def b(op,l,r): return {"k":"bin","op":op,"l":l,"r":r}
OPS={"lt":lambda a,b:a<b,"le":lambda a,b:a<=b,"gt":lambda a,b:a>b,"ge":lambda a,b:a>=b,"eq":lambda a,b:a==b,"ne":lambda a,b:a!=b,
     "add":lambda a,b:a+b,"sub":lambda a,b:a-b,"and":lambda a,b:a&b,"or":lambda a,b:a|b}
def emit(e, obj):
    if e["k"]=="field": return getattr(obj, e["name"])
    if e["k"]=="lit":
        v=sum(bt<<i for i,bt in enumerate(e["bits"])); 
        return v-(1<<32) if v>>31 else v
    l=emit(e["l"],obj)
    if isinstance(l,int): l=vsc.signed(l,32)
    return OPS[e["op"]](l, emit(e["r"],obj))
def build(world):
    flds=world["fields"]
    def init(self):
        for n,d in flds.items():
            t = (vsc.rand_int_t if d["s"] else vsc.rand_bit_t) if d["rand"] else (vsc.int_t if d["s"] else vsc.bit_t)
            setattr(self, n, t(d["w"]))
    def cbody(self):
        for c in world["constraints"]: emit(c, self)
    C=type("C",(object,),{"__init__":init,"blk0":vsc.constraint(cbody)})
    return vsc.randobj(C)
def sx(v,w): return v-(1<<w) if v>>(w-1) else v
def proj(o,world):
    return {n:bits(getattr(o,n),d["w"]) for n,d in world["fields"].items()}
rnd=random.Random(int(sys.argv[1]) if len(sys.argv)>1 else 0)
scens=[]
for sidx in range(int(sys.argv[2]) if len(sys.argv)>2 else 20):
    flds={n:{"w":rnd.choice([2,3,4]),"s":rnd.random()<0.5,"rand":rnd.random()<0.8} for n in "abc"}
    cons=[]
    for k in range(rnd.randint(1,3)):
        x,y,z=[rnd.choice([f("a"),f("b"),f("c"),lit(rnd.randint(-3,9))]) for _ in range(3)]
        cons.append(b(rnd.choice(["lt","le","gt","ge","eq","ne"]), b(rnd.choice(["add","sub","and","or"]),x,y), z))
    world={"fields":flds,"constraints":cons}
    T=build(world); o=T()
    world["init"]=proj(o,world)
    events=[]
    for step in range(12):
        r=rnd.random()
        if r<0.25:
            n=rnd.choice("abc"); d=flds[n]; v=rnd.randrange(1<<d["w"])
            setattr(o,n, sx(v,d["w"]) if d["s"] else v)
            events.append({"op":"set","f":n,"v":bits(v,d["w"])})
        elif r<0.4:
            n=rnd.choice("abc"); bb=rnd.random()<0.5
            with vsc.raw_mode(): getattr(o,n).rand_mode=bb
            events.append({"op":"rand_mode","f":n,"b":bb})
        else:
            pre=proj(o,world); exc="none"
            try:
                with contextlib.redirect_stdout(io.StringIO()): o.randomize()
            except SolveFailure: exc="SolveFailure"
            except Exception as e: exc="Other:"+type(e).__name__
            events.append({"op":"randomize","pre":pre,"post":proj(o,world),"exc":exc})
    scens.append({"id":"s%d"%sidx,"world":world,"events":events})
# corrupt scenario 3: flip one post bit of a randomize event
for ev in scens[3]["events"]:
    if ev["op"]=="randomize" and ev["exc"]=="none":
        ev["post"]["a"][0]^=1; break
json.dump({"scenarios":scens},open("trace2.json","w"))
print(sum(len(s["events"]) for s in scens),"events", [ (s["id"], [e["exc"] for e in s["events"] if e["op"]=="randomize"].count("SolveFailure")) for s in scens][:8])
