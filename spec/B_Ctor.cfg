CONSTANT Protected = TRUE
CONSTANT MaxOps = 3
SPECIFICATION Spec
INVARIANT IdleBetweenCalls
CHECK_DEADLOCK FALSE
