"""Instance-population families: constraint_mode toggles over class hierarchies (C07), inline and
dynamic constraints over several live instances (C06), cross-level references in object trees (C08)."""
import random

from .worlds import F, B, E, lit, bits
from .fam_expr import fld, wcall, mcall


def IN(e, vals):
    return E({"k": "in", "e": e, "items": [{"k": "v", "e": lit(v)} for v in vals], "neg": False})


# ------------------------------------------------------------------------------------------ C07
def world_hier():
    A = {"base": "", "fields": [fld("a", 2, False), fld("b", 2, False), fld("k", 2, False, rand=False, init=1),
                                {"name": "nl", "kind": "list", "w": 2, "signed": False, "rand": False, "init": [3], "cap": 6}],
         "blocks": [{"name": "c1", "dynamic": False, "body": [E(B("lt", F("a"), F("b")))]},
                    {"name": "c2", "dynamic": False, "body": [E(B("ne", F("a"), F("k")))]},
                    {"name": "c3", "dynamic": False, "body": [IN(F("b"), [1, 2, 3])]},
                    # a block whose elaboration rewrites the constraint tree (foreach over a list that is edited)
                    {"name": "c5", "dynamic": False, "body": [{"k": "foreach", "l": "nl", "v": "i", "it": True, "idx": False,
                                                                "body": [E(B("ne", F("a"), {"k": "it", "v": "i", "p": ""}))]}]}]}
    Bc = {"base": "A", "fields": [fld("c", 1, False)],
          "blocks": [{"name": "c1", "dynamic": False, "body": [E(B("gt", F("a"), F("b")))]},       # overrides A.c1
                     {"name": "c4", "dynamic": False, "body": [E(B("eq", F("c"), {"k": "part", "e": F("a"), "hi": 0, "lo": 0}))]}]}
    Cc = {"base": "B", "fields": [],
          "blocks": [{"name": "c2", "dynamic": False, "body": [E(B("eq", F("a"), F("k")))]},       # overrides A.c2
                     {"name": "c1", "dynamic": False, "body": [E(B("ne", F("a"), F("b")))]}]}       # overrides B.c1
    H = {"base": "", "fields": [fld("y", 2, False), {"name": "s", "kind": "obj", "cls": "A", "rand": True},
                                {"name": "t", "kind": "obj", "cls": "B", "rand": True},
                                {"name": "ol", "kind": "objlist", "cls": "A", "n": 2, "rand": True}],
         # the holder's own block has the SAME NAME as a block of the objects it holds
         "blocks": [{"name": "c1", "dynamic": False, "body": [E(B("le", F("s.a"), F("y")))]}]}
    return {"classes": {"A": A, "B": Bc, "C": Cc, "H": H},
            "population": [{"id": "o1", "cls": "A"}, {"id": "o2", "cls": "A"}, {"id": "o3", "cls": "B"}, {"id": "o4", "cls": "C"},
                           {"id": "h1", "cls": "H"}, {"id": "h2", "cls": "H"}, {"id": "o5", "cls": "A"}]}


BLOCKS = {"A": ["c1", "c2", "c3", "c5", "c5"], "B": ["c1", "c2", "c3", "c4", "c5"], "C": ["c1", "c2", "c3", "c4", "c5"], "H": ["c1"]}


def inst_list(alive):
    """(object path, class, probe paths) of every instance that can be toggled / probed"""
    out = []
    for o in alive:
        if o in ("o1", "o2", "o5"):
            out.append((o, "A", [o + ".a", o + ".b"]))
        elif o == "o3":
            out.append((o, "B", [o + ".a", o + ".b", o + ".c"]))
        elif o == "o4":
            out.append((o, "C", [o + ".a", o + ".b", o + ".c"]))
        else:
            out.append((o + ".s", "A", None))
            out.append((o + ".t", "B", None))
            out.append((o + ".ol[0]", "A", None))
            out.append((o + ".ol[1]", "A", None))
    return out


def holder_probe(h):
    paths = [h + ".y"] + [h + "." + p for p in ("s.a", "s.b", "t.a", "t.b", "t.c", "ol[0].a", "ol[0].b", "ol[1].a", "ol[1].b")]
    return {"op": "probe", "call": wcall([], h), "paths": paths, "mode": "around", "nsol": 3, "cap": 120}


def hist_cmode(rnd, sid, steps):
    steps += 4
    world = world_hier()
    order = ["o1", "o3", "h1"] + rnd.sample(["o2", "o4", "h2", "o5"], 4)
    alive = order[:3]
    later = order[3:]
    ops = [{"op": "construct", "o": o} for o in alive]
    nlsz = {}
    for i in range(steps):
        r = rnd.random()
        insts = inst_list(alive)
        if r < 0.40:
            o, cls, _ = rnd.choice(insts)
            ops.append({"op": "cmode", "o": o, "b": rnd.choice(BLOCKS[cls]), "en": rnd.random() < 0.35})
        elif r < 0.47:
            hs = [x for x in alive if x.startswith("h")]
            if hs:
                ops.append({"op": "cmode", "o": rnd.choice(hs), "b": "c1", "en": rnd.random() < 0.4})
        elif r < 0.53:
            fl = [x for x in alive if x.startswith("o")]
            o = rnd.choice(fl)
            kind = rnd.choice(["l_append", "l_append", "l_assign"])
            # the model bounds the list length (cap 6 in world_hier): stay inside it
            if kind == "l_append" and nlsz.get(o, 1) >= 6:
                kind = "l_assign"
            nlsz[o] = nlsz.get(o, 1) + 1 if kind == "l_append" else 1
            ops.append({"op": "list", "kind": kind, "p": o + ".nl",
                        "vs": [bits(rnd.randrange(4), 2)]})
        elif r < 0.60 and later:
            n = later.pop()
            alive.append(n)
            ops.append({"op": "construct", "o": n})
        elif r < 0.68:
            o = rnd.choice([x for x in alive if x.startswith("o")])
            ops.append({"op": "set", "p": o + ".k", "v": bits(rnd.randrange(4), 2)})
        else:
            top = rnd.choice(alive)
            ops.append({"op": "call", "call": mcall(top)})
        # probe one instance after every step (the full table for flat objects)
        top = rnd.choice(alive)
        if top.startswith("h"):
            ops.append(holder_probe(top))
        else:
            _, _, paths = [x for x in insts if x[0] == top][0] if any(x[0] == top for x in insts) else (None, None, None)
            if paths:
                ops.append({"op": "probe", "call": wcall([], top), "paths": paths})
    for top in alive:
        if top.startswith("h"):
            ops.append(holder_probe(top))
        else:
            paths = [x for x in inst_list(alive) if x[0] == top][0][2]
            ops.append({"op": "probe", "call": wcall([], top), "paths": paths})
    # every third toggle is issued inside a raw_mode section (where users also set the rand_mode of scalar fields)
    for j, op in enumerate(ops):
        if op["op"] == "cmode" and j % 3 == 0:
            op["raw"] = True
    return {"id": sid, "world": world, "ops": ops, "tags": []}


def family_cmode(tier, seed, n=None):
    out = []
    n = n or (24 if tier == "quick" else 300)
    for t in range(n):
        core = t < n // 2
        rnd = random.Random((707 if core else 7100 + seed) * 100003 + t)
        out.append(hist_cmode(rnd, "CM/%s/%d" % ("core" if core else "s%d" % seed, t), rnd.randint(6, 10)))
    return out


# ------------------------------------------------------------------------------------------ C06
def DYN(o, b):
    return {"k": "dyn", "o": o, "b": b}


def world_dyn():
    A = {"base": "", "fields": [fld("a", 2, False), fld("b", 2, False), fld("k", 2, False, rand=False, init=1)],
         "blocks": [{"name": "c1", "dynamic": False, "body": [E(B("le", F("a"), F("b")))]},
                    {"name": "d1", "dynamic": True, "body": [E(B("eq", F("b"), lit(3)))]},
                    {"name": "d2", "dynamic": True, "body": [E(B("eq", F("a"), lit(0)))]},
                    {"name": "d3", "dynamic": True, "body": [E(B("ne", F("a"), F("k")))]}]}
    H = {"base": "", "fields": [fld("y", 2, False), {"name": "s", "kind": "obj", "cls": "A", "rand": True},
                                {"name": "ol", "kind": "objlist", "cls": "A", "n": 2, "rand": True}],
         "blocks": [{"name": "hc", "dynamic": False, "body": [E(B("le", F("s.a"), F("y")))]},
                    # a CLASS constraint that references the dynamic block of a list element, and a dynamic block doing so
                    {"name": "he", "dynamic": False, "body": [E(DYN("ol[1]", "d2"))]},
                    {"name": "hd", "dynamic": True, "body": [E(B("eq", F("y"), lit(2))), E(DYN("ol[0]", "d1"))]}]}
    return {"classes": {"A": A, "H": H},
            "population": [{"id": "o1", "cls": "A"}, {"id": "o2", "cls": "A"}, {"id": "o3", "cls": "A"},
                           {"id": "h1", "cls": "H"}, {"id": "h2", "cls": "H"}]}


def dyn_terms(rnd):
    """Boolean terms over dynamic-constraint references of the randomized object itself"""
    return rnd.choice([
        [E(DYN("", "d1"))],
        [E(DYN("", "d2"))],
        [E(B("or", DYN("", "d1"), DYN("", "d2")))],
        [E(B("and", DYN("", "d1"), DYN("", "d3")))],
        [E(B("and", DYN("", "d1"), {"k": "not", "e": DYN("", "d2")}))],
        [E(DYN("", "d3")), E(B("ne", F("a"), F("b")))],
        [E(B("eq", F("a"), F("k")))],
        [E(B("gt", F("b"), 1))],
        [],
    ])


def hist_dyn(rnd, sid, steps):
    world = world_dyn()
    pool = ["o1", "o2", "o3"]
    rnd.shuffle(pool)
    alive = [pool.pop()]
    ops = [{"op": "construct", "o": alive[0]}]
    ks = {}
    if rnd.random() < 0.65:
        alive.append("h1")
        ops.append({"op": "construct", "o": "h1"})
    for i in range(steps):
        r = rnd.random()
        flat = [o for o in alive if o.startswith("o")]
        if r < 0.2 and pool:
            n = pool.pop()
            alive.append(n)
            ops.append({"op": "construct", "o": n})
            ops.append({"op": "set", "p": n + ".k", "v": bits(len(alive) % 4, 2)})      # distinguishable non-random values
        elif r < 0.3:
            o = rnd.choice(flat)
            ops.append({"op": "set", "p": o + ".k", "v": bits(rnd.randrange(4), 2)})
        elif r < 0.45 and "h1" in alive:
            inl = rnd.choice([[E(DYN("s", "d1"))], [E(DYN("", "hd"))], [E(B("or", DYN("s", "d2"), DYN("", "hd")))],
                              [E(DYN("ol[1]", "d1"))], [E(DYN("ol[0]", "d2")), E(DYN("s", "d3"))],
                              # inside an inline foreach: the dynamic block of EACH element, selected by the index
                              [{"k": "foreach", "l": "ol", "v": "j", "it": False, "idx": True,
                                "body": [E({"k": "dyni", "l": "ol", "i": {"k": "ix", "v": "j"}, "b": "d3"})]}],
                              [{"k": "foreach", "l": "ol", "v": "j", "it": False, "idx": True,
                                "body": [{"k": "imp", "c": B("eq", {"k": "ix", "v": "j"}, lit(1)),
                                          "body": [E({"k": "dyni", "l": "ol", "i": {"k": "ix", "v": "j"}, "b": "d1"})]}]}]])
            ops.append({"op": "call", "call": wcall(inl, "h1")})
            ops.append({"op": "probe", "call": wcall(inl, "h1"), "mode": "around", "nsol": 3, "cap": 100,
                        "paths": ["h1.y"] + ["h1." + p for p in ("s.a", "s.b", "ol[0].a", "ol[0].b", "ol[1].a", "ol[1].b")]})
        else:
            o = rnd.choice(flat)
            inl = dyn_terms(rnd)
            ops.append({"op": "call", "call": wcall(inl, o)})
            # the table of this very call (the inline / dynamic terms bind to o)
            ops.append({"op": "probe", "call": wcall(inl, o), "paths": [o + ".a", o + ".b"]})
        # afterwards every live flat instance must have its plain solution set (nothing leaked)
        for o in flat:
            if rnd.random() < 0.6:
                ops.append({"op": "probe", "call": wcall([], o), "paths": [o + ".a", o + ".b"]})
        if rnd.random() < 0.3:
            ops.append({"op": "call", "call": mcall(rnd.choice(flat))})
        if "h1" in alive and rnd.random() < 0.3:
            # the object list is emptied and refilled with fresh objects: references go to the NEW elements
            ops.append({"op": "call", "call": mcall("h1")})
            ops.append({"op": "ol_refill", "p": "h1.ol"})
            ops.append({"op": "call", "call": mcall("h1")})
            ops.append({"op": "probe", "call": wcall([], "h1"), "mode": "around", "nsol": 3, "cap": 100,
                        "paths": ["h1.y"] + ["h1." + p for p in ("s.a", "s.b", "ol[0].a", "ol[0].b", "ol[1].a", "ol[1].b")]})
    return {"id": sid, "world": world, "ops": ops, "tags": []}


def family_dyn(tier, seed, n=None):
    out = []
    n = n or (24 if tier == "quick" else 300)
    for t in range(n):
        core = t < n // 2
        rnd = random.Random((606 if core else 6100 + seed) * 100003 + t)
        out.append(hist_dyn(rnd, "DY/%s/%d" % ("core" if core else "s%d" % seed, t), rnd.randint(4, 8)))
    return out


def family_dyn_member_foreach(tier, seed, n=None):
    """a dynamic block that CONTAINS a foreach, owned by a member object (random or not) or by a list element and referenced
    through the parent's call (it.s.dq()): it is unrolled over the member's list as it is at THAT call - the list grows and
    shrinks between calls - and leaves nothing behind for plain calls"""
    out = []
    n = n or (6 if tier == "quick" else 36)
    IT = {"k": "it", "v": "q", "p": ""}
    for t in range(n):
        rnd = random.Random(6200 + t + (seed if t >= n // 2 else 0) * 1000)
        S = {"base": "", "fields": [fld("x", 2, False),
                                    {"name": "il", "kind": "list", "w": 2, "signed": False, "rand": True, "init": [0, 0], "randsz": False, "cap": 4}],
             "blocks": [{"name": "sc", "dynamic": False, "body": [E(B("ne", F("x"), lit(rnd.randrange(4))))]},
                        {"name": "dq", "dynamic": True,
                         "body": [{"k": "foreach", "l": "il", "v": "q", "it": True, "idx": False, "of": "",
                                   "body": [E(B(rnd.choice(["le", "lt", "eq"]), IT, F("x")))]}]}]}
        where = ["s", "m", "ol[0]", "s", "ol[1]", "ol[0]"][t % 6]          # random member, non-random member, list element
        H = {"base": "", "fields": [fld("y", 2, False), {"name": "s", "kind": "obj", "cls": "S", "rand": True},
                                    {"name": "m", "kind": "obj", "cls": "S", "rand": False},
                                    {"name": "ol", "kind": "objlist", "cls": "S", "n": 2, "rand": True}],
             "blocks": [{"name": "hc", "dynamic": False, "body": [E(B("le", F("s.x"), F("y")))]}]}
        world = {"classes": {"S": S, "H": H}, "population": [{"id": "h1", "cls": "H"}]}
        base = "h1." + where
        inl = [E(DYN(where, "dq"))]
        if t % 6 == 5:
            # ... of EVERY element, referenced by index inside an inline foreach over the object list
            inl = [{"k": "foreach", "l": "ol", "v": "j", "it": False, "idx": True, "of": "",
                    "body": [E({"k": "dyni", "l": "ol", "i": {"k": "ix", "v": "j"}, "b": "dq"})]}]

        def pr(call_inl, k_):
            # every scalar of the tree that is random in the call is pinned: the edited list has k_ elements, the others two
            paths = ["h1.y"]
            for o_ in ("s", "ol[0]", "ol[1]"):
                paths += ["h1.%s.x" % o_] + ["h1.%s.il[%d]" % (o_, i) for i in range(k_ if o_ == where else 2)]
            return {"op": "probe", "call": wcall(call_inl, "h1"), "mode": "around", "nsol": 3, "cap": 120, "paths": paths}
        ops = [{"op": "construct", "o": "h1"}, {"op": "call", "call": wcall(inl, "h1")}, pr(inl, 2),
               {"op": "list", "kind": "l_append", "p": base + ".il", "vs": [bits(3, 2)]},
               {"op": "call", "call": wcall(inl, "h1")}, pr(inl, 3), {"op": "call", "call": mcall("h1")}, pr([], 3),
               {"op": "list", "kind": "l_assign", "p": base + ".il", "vs": [bits(2, 2)]},
               {"op": "call", "call": wcall(inl, "h1")}, pr(inl, 1),
               {"op": "list", "kind": "l_extend", "p": base + ".il", "vs": [bits(3, 2), bits(3, 2)]},
               {"op": "call", "call": wcall(inl + [E(B("ne", F("y"), lit(0)))], "h1")}, pr(inl, 3), {"op": "call", "call": mcall("h1")}]
        out.append({"id": "DY/memberfe/%s/%d" % (where.replace("[", "").replace("]", ""), t), "world": world, "ops": ops, "tags": []})
    return out
