---------------------------- MODULE B_CovSample -----------------------------
(***************************************************************************)
(* Mechanism-level model of the sampling pipeline behind C10-C12:          *)
(*   CovergroupModel.sample        (model/covergroup_model.py)             *)
(*   CoverpointModel.sample / coverage_ev / get_inst_coverage              *)
(*   CoverpointCrossModel.sample / get_coverage                            *)
(* with the state the code keeps besides the hit counters:                 *)
(*   - per coverpoint the SET OF UNHIT BINS, updated when a bin reaches    *)
(*     at_least, from which coverage is computed;                          *)
(*   - CACHED COVERAGE figures with valid flags on coverpoints, crosses    *)
(*     and groups (a group's flag is cleared only when a bin becomes       *)
(*     covered);                                                           *)
(*   - the HIT MARKER a coverpoint's bins leave behind (read by crosses;   *)
(*     stale while the coverpoint's iff is off);                           *)
(*   - the VALUE / IFF CACHES through which an instance hands its sampled  *)
(*     values to the type-level group, which is then sampled by the same   *)
(*     code, and which are reset at the end of every sample().             *)
(* The requirement-level state S of MC_VscCov runs alongside (Effect0 of   *)
(* VscCov).  Obligation B |= A, for every sequence of instance creations,  *)
(* samples and coverage queries (a query fills the caches):                *)
(*   the counters of every instance equal S, those of every type the       *)
(*   bin-wise sum over its instances; the unhit sets are exactly the bins  *)
(*   below their threshold; whatever a query returns - cached or not - is  *)
(*   GroupCov of the requirement level; value caches are clear between     *)
(*   samples.                                                              *)
(* InvalidateOnCover = FALSE (a group keeps its cached figure when a bin   *)
(* becomes covered) makes TLC print the shortest stale-figure history.     *)
(***************************************************************************)
EXTENDS MC_VscCov
CONSTANT InvalidateOnCover
VARIABLES gi,      \* sequence: mechanism state of each instance group
          gt       \* shape name -> mechanism state of the type group (from the first instance of the shape on)
bvars == <<S, gi, gt>>

CpNames(sh) == {sh.cps[i].name : i \in 1..Len(sh.cps)}
XNames(sh)  == {sh.xs[i].name : i \in 1..Len(sh.xs)}
Stale == [v |-> 0, ok |-> FALSE]
MkGroup(sh) ==
  [h     |-> [n \in CpNames(sh) |-> ZeroSeq(Len(CB(sh, n)))],
   ig    |-> [n \in CpNames(sh) |-> ZeroSeq(Len(CpByName(sh, n).ign))],
   x     |-> [n \in XNames(sh) |-> ZeroSeq(NCrossC(sh, XByName(sh, n)))],
   unhit |-> [n \in CpNames(sh) |-> 1..Len(CB(sh, n))],
   xunhit |-> [n \in XNames(sh) |-> 1..NCrossC(sh, XByName(sh, n))],
   ccov  |-> [n \in CpNames(sh) \cup XNames(sh) |-> Stale],      \* cached coverage of coverpoints and crosses
   gcov  |-> Stale,                                               \* cached coverage of the group
   mark  |-> [n \in CpNames(sh) |-> 0],                           \* hit marker of the coverpoint's bins (0 = none)
   vc    |-> [n \in CpNames(sh) |-> Stale],                       \* target_val_cache / target_val_cache_valid
   ic    |-> [n \in CpNames(sh) \cup XNames(sh) |-> [v |-> TRUE, ok |-> FALSE]]]   \* iff_val_cache / iff_val_cache_valid

(* ---- one coverpoint sampled inside group g; `vals` is what target.val() / iff.val() would return -------------- *)
SampleCp(sh, g, cp, vals) ==
  LET n   == cp.name
      \* iff: evaluated unless the cache is valid (type groups receive it from the instance)
      icn == IF cp.iff # "" /\ ~g.ic[n].ok THEN [v |-> vals[cp.iff] # 0, ok |-> TRUE] ELSE g.ic[n]
  IN IF ~icn.v THEN [g EXCEPT !.ic[n] = icn]                       \* bins not sampled: marker and value cache untouched
     ELSE
     LET vcn == IF ~g.vc[n].ok THEN [v |-> vals[cp.var], ok |-> TRUE] ELSE g.vc[n]
         v   == vcn.v
         bs  == CB(sh, n)
         hit == {b \in 1..Len(bs) : v \in bs[b]}
         igh == {b \in 1..Len(cp.ign) : v \in Vals(cp.ign[b].ranges)}
         h2  == Inc(g.h[n], hit)
         newly == {b \in hit : b \in g.unhit[n] /\ h2[b] >= cp.atl}      \* coverage_ev: bin reaches at_least
     IN [g EXCEPT !.ic[n] = icn, !.vc[n] = vcn,
                  !.h[n] = h2, !.ig[n] = Inc(g.ig[n], igh),
                  !.mark[n] = IF hit = {} THEN 0 ELSE Min(hit),
                  !.unhit[n] = g.unhit[n] \ newly,
                  !.ccov[n] = IF hit # {} THEN Stale ELSE g.ccov[n],      \* coverage_calc_valid = False on every regular hit
                  !.gcov = IF newly # {} /\ InvalidateOnCover THEN Stale ELSE g.gcov]

SampleX(sh, g, x, vals) ==
  LET n   == x.name
      icn == IF x.iff # "" /\ ~g.ic[n].ok THEN [v |-> vals[x.iff] # 0, ok |-> TRUE] ELSE g.ic[n]
      \* every crossed coverpoint must be on (its iff cache) and must have left a hit marker
      all == icn.v /\ \A i \in 1..Len(x.cps) : g.ic[x.cps[i]].v /\ g.mark[x.cps[i]] # 0
  IN IF ~all THEN [g EXCEPT !.ic[n] = icn]
     ELSE LET b  == RowMajorC(sh, x.cps, [i \in 1..Len(x.cps) |-> g.mark[x.cps[i]]], 1, 0)
              h2 == Inc(g.x[n], {b})
              newly == b \in g.xunhit[n] /\ h2[b] >= x.atl
          IN [g EXCEPT !.ic[n] = icn, !.x[n] = h2,
                       !.xunhit[n] = IF newly THEN g.xunhit[n] \ {b} ELSE g.xunhit[n],
                       !.ccov[n] = IF newly THEN Stale ELSE g.ccov[n],
                       !.gcov = IF newly /\ InvalidateOnCover THEN Stale ELSE g.gcov]

RECURSIVE CpsFrom(_, _, _, _), XsFrom(_, _, _, _)
CpsFrom(sh, g, vals, i) == IF i > Len(sh.cps) THEN g ELSE CpsFrom(sh, SampleCp(sh, g, sh.cps[i], vals), vals, i + 1)
XsFrom(sh, g, vals, i)  == IF i > Len(sh.xs) THEN g ELSE XsFrom(sh, SampleX(sh, g, sh.xs[i], vals), vals, i + 1)
\* cp.reset() / cr.reset(): the valid flags are cleared, the cached values stay behind
Reset(sh, g) == [g EXCEPT !.vc = [n \in DOMAIN g.vc |-> [g.vc[n] EXCEPT !.ok = FALSE]],
                          !.ic = [n \in DOMAIN g.ic |-> [g.ic[n] EXCEPT !.ok = FALSE]]]

\* CovergroupModel.sample() of an instance: coverpoints, crosses, hand the caches to the type, sample the type, reset
\* (the type group has no variables of its own: `vals` is never read there because every cache it needs is valid)
NoVals == [a |-> 0, g |-> 0]
SampleGroup(sh, g, t, vals) ==
  LET g1 == XsFrom(sh, CpsFrom(sh, g, vals, 1), vals, 1)
      t0 == [t EXCEPT !.ic = [n \in DOMAIN t.ic |-> [v |-> g1.ic[n].v, ok |-> TRUE]],          \* set_target_value_cache
                      !.vc = [n \in DOMAIN t.vc |-> [v |-> g1.vc[n].v, ok |-> TRUE]]]
      t1 == XsFrom(sh, CpsFrom(sh, t0, NoVals, 1), NoVals, 1)
  IN <<Reset(sh, g1), Reset(sh, t1)>>

(* ---- coverage queries: cached figure when valid, else computed from the unhit sets and cached ------------------ *)
ItemFig(sh, g, n, nbins, unhit) == IF g.ccov[n].ok THEN g.ccov[n].v
                                   ELSE IF nbins = 0 THEN Full ELSE (Full * (nbins - Cardinality(unhit))) \div nbins
CpFig(sh, g, n) == ItemFig(sh, g, n, Len(g.h[n]), g.unhit[n])
XFig(sh, g, n)  == ItemFig(sh, g, n, Len(g.x[n]), g.xunhit[n])
GroupFig(sh, g) ==
  IF g.gcov.ok THEN g.gcov.v
  ELSE LET ic == [i \in 1..(Len(sh.cps) + Len(sh.xs)) |->
                    IF i <= Len(sh.cps) THEN <<sh.cps[i].wt, CpFig(sh, g, sh.cps[i].name)>>
                    ELSE <<sh.xs[i - Len(sh.cps)].wt, XFig(sh, g, sh.xs[i - Len(sh.cps)].name)>>]
       IN IF Len(ic) = 0 \/ SumW(ic, 1) = 0 THEN Full ELSE SumWC(ic, 1) \div SumW(ic, 1)
\* a query leaves every figure it computed in the caches
Queried(sh, g) == [g EXCEPT !.ccov = [n \in DOMAIN g.ccov |-> [v |-> IF n \in CpNames(sh) THEN CpFig(sh, g, n) ELSE XFig(sh, g, n), ok |-> TRUE]],
                            !.gcov = [v |-> GroupFig(sh, g), ok |-> TRUE]]

(* ---------------------------------------------- actions --------------------------------------------------------- *)
BNew(sh) == /\ New(sh)
            /\ gi' = Append(gi, MkGroup(W.shapes[sh]))
            /\ gt' = IF sh \notin DOMAIN gt THEN (sh :> MkGroup(W.shapes[sh])) @@ gt ELSE gt
BSample(i, v) == /\ Sample(i, v)
                 /\ LET sn == S.insts[i].shape
                        r  == SampleGroup(W.shapes[sn], gi[i], gt[sn], v) IN
                    gi' = [gi EXCEPT ![i] = r[1]] /\ gt' = [gt EXCEPT ![sn] = r[2]]
QueryInst(i) == /\ i \in 1..Len(gi) /\ gi' = [gi EXCEPT ![i] = Queried(W.shapes[S.insts[i].shape], gi[i])] /\ UNCHANGED <<S, gt>>
QueryType(sh) == /\ sh \in DOMAIN gt /\ gt' = [gt EXCEPT ![sh] = Queried(W.shapes[sh], gt[sh])] /\ UNCHANGED <<S, gi>>

BInit == Init /\ gi = << >> /\ gt = << >>
BNext == \/ \E sh \in {"A", "B"} : BNew(sh)
         \/ \E i \in 1..MaxInst : \E v \in Values : BSample(i, v)
         \/ \E i \in 1..MaxInst : QueryInst(i)
         \/ \E sh \in {"A", "B"} : QueryType(sh)
BSpec == BInit /\ [][BNext]_bvars

(* ---------------------------------------------- B |= A ---------------------------------------------------------- *)
MembersOf(sh) == {i \in 1..Len(S.insts) : S.insts[i].shape = sh}
CountersRefine ==
  /\ Len(gi) = Len(S.insts)
  /\ \A i \in 1..Len(gi) : gi[i].h = S.insts[i].h /\ gi[i].ig = S.insts[i].ig /\ gi[i].x = S.insts[i].x
  /\ \A sh \in {"A", "B"} : sh \in DOMAIN gt =>
        LET d == TypeData(W, S, MembersOf(sh)) IN gt[sh].h = d.h /\ gt[sh].ig = d.ig /\ gt[sh].x = d.x
UnhitOf(sh, g) == /\ \A n \in CpNames(sh) : g.unhit[n] = {b \in 1..Len(g.h[n]) : g.h[n][b] < CpByName(sh, n).atl}
                  /\ \A n \in XNames(sh) : g.xunhit[n] = {b \in 1..Len(g.x[n]) : g.x[n][b] < XByName(sh, n).atl}
UnhitExact == /\ \A i \in 1..Len(gi) : UnhitOf(W.shapes[S.insts[i].shape], gi[i])
              /\ \A sh \in {"A", "B"} : sh \in DOMAIN gt => UnhitOf(W.shapes[sh], gt[sh])
\* whatever a query would return now is the requirement-level figure
QueryExact == /\ \A i \in 1..Len(gi) : GroupFig(W.shapes[S.insts[i].shape], gi[i]) = GroupCov(W.shapes[S.insts[i].shape], S.insts[i])
              /\ \A sh \in {"A", "B"} : sh \in DOMAIN gt =>
                    GroupFig(W.shapes[sh], gt[sh]) = GroupCov(W.shapes[sh], TypeData(W, S, MembersOf(sh)))
CachesClear == /\ \A i \in 1..Len(gi) : \A n \in DOMAIN gi[i].vc : ~gi[i].vc[n].ok
               /\ \A i \in 1..Len(gi) : \A n \in DOMAIN gi[i].ic : ~gi[i].ic[n].ok
               /\ \A sh \in {"A", "B"} : sh \in DOMAIN gt => \A n \in DOMAIN gt[sh].ic : ~gt[sh].ic[n].ok
=============================================================================
