------------------------------- MODULE B_Walk -------------------------------
(***************************************************************************)
(* Mechanism-level model of the cumulative-weight walk used by              *)
(* vsc.distselect / randselect and by ConstraintDistScopeModel              *)
(* .next_target_range (C15): the weights are sorted ascending, a seed is    *)
(* drawn in 1..total, and the first entry at which the running remainder    *)
(* drops to <= 0 is selected.  Obligation: for every weight vector, entry i *)
(* is selected for exactly w_i of the total seeds (so with probability      *)
(* w_i/total, never when w_i = 0).  One TLC state per weight vector.        *)
(***************************************************************************)
EXTENDS Naturals, Integers, Sequences, FiniteSets, SequencesExt, TLC
CONSTANTS MaxLen, MaxW
VARIABLES ws
vars == <<ws>>
Total(w) == LET RECURSIVE S(_) S(i) == IF i > Len(w) THEN 0 ELSE w[i] + S(i + 1) IN S(1)
\* stable sort of indices by weight (Python's list.sort is stable)
Order(w) == SetToSortSeq(1..Len(w), LAMBDA a, b : w[a] < w[b] \/ (w[a] = w[b] /\ a < b))
RECURSIVE WalkRec(_, _, _, _)
WalkRec(w, ord, k, rem) ==
  IF k > Len(ord) THEN ord[Len(ord)]
  ELSE LET r == rem - w[ord[k]] IN IF r <= 0 THEN ord[k] ELSE WalkRec(w, ord, k + 1, r)
Walk(w, seed) == WalkRec(w, Order(w), 1, seed)

Init == ws \in UNION {[1..n -> 0..MaxW] : n \in 1..MaxLen} /\ Total(ws) > 0
Next == UNCHANGED vars
Spec == Init /\ [][Next]_vars

WeightExact == \A i \in 1..Len(ws) : Cardinality({s \in 1..Total(ws) : Walk(ws, s) = i}) = ws[i]
ZeroNever   == \A s \in 1..Total(ws) : ws[Walk(ws, s)] > 0
=============================================================================
