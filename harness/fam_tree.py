"""Object-tree families (C08, C16, C17): nested objects, object lists, random / non-random members at
every level, callbacks on every composite, all call kinds, injected user exceptions."""
import random

from .worlds import F, B, E, lit, bits
from .fam_expr import fld, wcall, mcall


def tree_world(rnd, cb=True, lists=True, softs=False):
    """returns (world, info) ; info lists scalar paths, object paths and probe paths of object o1"""
    leaf = {"base": "", "cb": cb,
            "fields": [fld("x", 2, False), fld("z", 2, False, rand=False, init=1)],
            "blocks": [{"name": "lc", "dynamic": False, "body": [E(B("ne", F("x"), F("z")))]}]}
    lf_rand = rnd.random() < 0.7
    has_ll = lists and rnd.random() < 0.5
    ll_rand = rnd.random() < 0.7
    mid_fields = [fld("x", 2, False), fld("z", 2, False, rand=False, init=2),
                  {"name": "lf", "kind": "obj", "cls": "Leaf", "rand": lf_rand}]
    mid_blocks = [{"name": "mc", "dynamic": False, "body": [E(B("le", F("x"), F("lf.x")))]}]
    if has_ll:
        mid_fields.append({"name": "ll", "kind": "objlist", "cls": "Leaf", "n": 2, "rand": ll_rand})
        mid_blocks.append({"name": "ml", "dynamic": False, "body": [E(B("ne", F("ll[0].x"), F("ll[1].x")))]})
    mid = {"base": "", "cb": cb, "fields": mid_fields, "blocks": mid_blocks}
    s1_rand = rnd.random() < 0.8
    has_ol = lists and rnd.random() < 0.6
    ol_rand = rnd.random() < 0.7
    top_fields = [fld("y", 2, False), fld("k", 2, False, rand=False, init=1),
                  {"name": "s1", "kind": "obj", "cls": "Mid", "rand": s1_rand},
                  {"name": "s2", "kind": "obj", "cls": "Mid", "rand": not s1_rand or rnd.random() < 0.3}]
    top_blocks = [{"name": "c1", "dynamic": False, "body": [E(B("le", F("s1.x"), F("y")))]},
                  {"name": "c2", "dynamic": False, "body": [E(B("ne", F("y"), F("k")))]},
                  {"name": "c3", "dynamic": False, "body": [E(B("ne", F("s1.lf.x"), F("s2.lf.x")))]}]
    if has_ol:
        top_fields.append({"name": "ol", "kind": "objlist", "cls": "Mid", "n": 2, "rand": ol_rand})
        top_blocks.append({"name": "c4", "dynamic": False, "body": [E(B("lt", F("ol[0].x"), F("ol[1].x")))]})
        top_blocks.append({"name": "c5", "dynamic": False, "body": [E(B("ne", F("ol[1].lf.x"), F("s1.x")))]})
    top_blocks.append({"name": "td", "dynamic": True, "body": [E(B("ne", F("y"), F("s1.x"))), E(B("le", F("y"), lit(3)))]})
    top = {"base": "", "cb": cb, "fields": top_fields, "blocks": top_blocks}
    world = {"classes": {"Leaf": leaf, "Mid": mid, "Top": top},
             "population": [{"id": "o1", "cls": "Top"}, {"id": "o2", "cls": "Top"}]}
    mids = ["s1", "s2"] + (["ol[0]", "ol[1]"] if has_ol else [])
    objs = [""] + mids
    for m in mids:
        objs.append(m + ".lf")
        if has_ll:
            objs += [m + ".ll[0]", m + ".ll[1]"]
    scal = ["y", "k"]
    for m in mids:
        scal += [m + ".x", m + ".z", m + ".lf.x", m + ".lf.z"]
        if has_ll:
            scal += [m + ".ll[0].x", m + ".ll[1].x", m + ".ll[0].z"]
    return world, {"objs": objs, "scalars": scal, "mids": mids, "has_ol": has_ol, "has_ll": has_ll}


def ap(o, p):
    return o if p == "" else o + "." + p


def rand_call(rnd, o, info, allow_fail=True):
    kind = rnd.choice(["method", "method", "with", "with", "free", "free_sub", "free_with"])
    inl = rnd.choice([[], [E(B("eq", F("y"), F("k")))] if allow_fail and rnd.random() < 0.3 else [],
                      [E(B("ge", F("s1.lf.x"), 1))], [E(B("ne", F("s1.x"), F("s2.x")))]])
    if kind == "method":
        return mcall(o)
    if kind == "with":
        return wcall(inl, o)
    if kind == "free":
        return {"kind": "free", "roots": [o], "owner": "", "inline": []}
    if kind == "free_sub":
        m = rnd.choice(info["mids"])
        return {"kind": "free", "roots": [ap(o, m)] + ([ap(o, "s2.lf")] if rnd.random() < 0.3 and m != "s2" else []),
                "owner": "", "inline": []}
    return {"kind": "free_with", "roots": [o], "owner": "", "inline": [E(B("le", F(o + ".y"), F(o + ".s1.lf.x")))]}


def hist_tree(rnd, sid, steps=8, faults=False, probes=False):
    world, info = tree_world(rnd)
    ops = [{"op": "construct", "o": "o1"}, {"op": "construct", "o": "o2"}]
    for i in range(steps):
        o = rnd.choice(["o1", "o1", "o2"])
        r = rnd.random()
        if r < 0.2:
            p = rnd.choice(info["scalars"])
            ops.append({"op": "set", "p": ap(o, p), "v": bits(rnd.randrange(4), 2)})
        elif r < 0.3:
            p = rnd.choice([s for s in info["scalars"] if s.endswith("x") or s == "y"])
            if rnd.random() < 0.35:
                p = rnd.choice([m for m in info["objs"] if m and "[" not in m])       # a member object as a whole
            ops.append({"op": "rand_mode", "p": ap(o, p), "b": rnd.random() < 0.4})
        else:
            call = rand_call(rnd, o, info)
            op = {"op": "call", "call": call}
            # a pre_randomize callback that assigns a non-random field read by a constraint
            if rnd.random() < 0.4:
                tgt = rnd.choice(["k", "s1.z", "s1.lf.z", "s2.lf.x"])
                cbo = rnd.choice(info["objs"])
                op["cb_script"] = [{"ph": "pre", "o": ap(o, cbo), "assign": ap(o, tgt), "v": bits(rnd.randrange(4), 2)}]
            if faults and rnd.random() < 0.45:
                ph = rnd.choice(["pre", "post", "body"])
                if ph == "body" and call["kind"] not in ("with", "free_with"):
                    ph = "pre"
                if ph == "body":
                    op["fault"] = {"ph": "body", "pos": rnd.randint(0, len(call["inline"]))}
                else:
                    op["fault"] = {"ph": ph, "o": ap(o, rnd.choice(info["objs"]))}
            ops.append(op)
            if probes and rnd.random() < 0.3:
                ops.append(tree_probe(o, info))
    if probes:
        ops.append(tree_probe("o1", info))
    return {"id": sid, "world": world, "ops": ops, "tags": []}


def tree_probe(o, info):
    """pins every scalar of the tree: rows are real solutions and their single-field mutations"""
    return {"op": "probe", "call": wcall([], o), "paths": [ap(o, p) for p in info["scalars"]], "mode": "around", "nsol": 3,
            "cap": 160}


def family_T(tier, seed, n=None, faults=False, probes=False, tag="T"):
    out = []
    n = n or (30 if tier == "quick" else 400)
    for t in range(n):
        core = t < n // 2
        rnd = random.Random((1717 if core else 9000 + seed) * 100003 + t + (31 if faults else 0) + (57 if probes else 0))
        out.append(hist_tree(rnd, "%s/%s/%d" % (tag, "core" if core else "s%d" % seed, t),
                             steps=rnd.randint(5, 9), faults=faults, probes=probes))
    return out


def family_nonrand_member(tier, seed, n=None):
    """a NON-RANDOM member object that itself holds objects (and object lists), left in a state that violates its own blocks
    and those of the objects below it: none of them takes part in a call on the top object, their fields are constants"""
    out = []
    n = n or (6 if tier == "quick" else 60)
    for t in range(n):
        rnd = random.Random(1790 + t + (0 if t < n // 2 else seed * 131))
        world, info = tree_world(rnd)
        for f in world["classes"]["Top"]["fields"]:
            if f["name"] == "s2":
                f["rand"] = False
            if f["name"] == "s1":
                f["rand"] = True
        ops = [{"op": "construct", "o": "o1"}, {"op": "call", "call": mcall("o1")},
               # s2.x > s2.lf.x violates Mid.mc ; s2.lf.x == s2.lf.z violates Leaf.lc
               {"op": "set", "p": "o1.s2.x", "v": bits(3, 2)}, {"op": "set", "p": "o1.s2.lf.x", "v": bits(rnd.choice([0, 1]), 2)}]
        ops.append({"op": "set", "p": "o1.s2.lf.z", "v": ops[-1]["v"]})
        if info["has_ll"]:
            ops += [{"op": "set", "p": "o1.s2.ll[0].x", "v": bits(2, 2)}, {"op": "set", "p": "o1.s2.ll[1].x", "v": bits(2, 2)}]     # violates Mid.ml
        for k_ in range(3):
            ops.append({"op": "call", "call": rnd.choice([mcall("o1"), wcall([E(B("ge", F("s1.lf.x"), 1))], "o1"),
                                                          {"kind": "free", "roots": ["o1"], "owner": "", "inline": []}])})
        ops.append(tree_probe("o1", info))
        # now as the ROOT of a call it is random (for that call) and its blocks are in force
        ops.append({"op": "call", "call": {"kind": "free", "roots": ["o1.s2"], "owner": "", "inline": []}})
        ops.append({"op": "call", "call": mcall("o1")})
        out.append({"id": "TN/%d" % t, "world": world, "ops": ops, "tags": []})
    return out


# ------------------------------------------------------------------------------------------
# construction-time faults (C16): a constraint body raises while the object is being built
# ------------------------------------------------------------------------------------------
def family_ctor_fault(tier, seed, n=None):
    out = []
    n = n or (12 if tier == "quick" else 120)
    for t in range(n):
        rnd = random.Random(6161 * 100003 + t + (0 if t < n // 2 else seed * 977))
        world, info = tree_world(rnd)
        world["population"].append({"id": "o3", "cls": "Top"})
        cls, blk = rnd.choice([("Top", "c1"), ("Top", "c2"), ("Mid", "mc"), ("Leaf", "lc"), ("Top", "c3"), ("Top", "td"), ("Top", "td")])
        ops = [{"op": "construct", "o": "o1"},
               {"op": "call", "call": mcall("o1")},
               {"op": "construct", "o": "o2", "fault": {"cls": cls, "blk": blk, "pos": rnd.randint(0, 1)}},
               {"op": "call", "call": mcall("o1")},
               tree_probe("o1", info),
               {"op": "construct", "o": "o3"},
               {"op": "call", "call": wcall([E(B("ge", F("s1.lf.x"), 1))], "o3")},
               tree_probe("o3", info)]
        out.append({"id": "CF/%d" % t, "world": world, "ops": ops, "tags": []})
    return out


# ------------------------------------------------------------------------------------------
# sibling sub-objects of one class and object lists with cross-level references (C08)
# ------------------------------------------------------------------------------------------
def world_siblings(rnd):
    sub = {"base": "", "fields": [fld("x", 2, False), fld("z", 1, False, rand=rnd.random() < 0.5, init=1),
                                  # every sub-object owns a list of its own (lengths diverge through edits)
                                  {"name": "il", "kind": "list", "w": 2, "signed": False, "rand": False, "init": [1], "cap": 4}],
           "blocks": [{"name": "sc", "dynamic": False, "body": [E(B("ne", F("x"), lit(rnd.randrange(4))))]},
                      # a foreach in the member's OWN block over its own list: unrolled per instance, anew for every call
                      {"name": "sl", "dynamic": False,
                       "body": [{"k": "foreach", "l": "il", "v": "q", "it": True, "idx": False,
                                 "body": [E(B("ne", F("x"), {"k": "it", "v": "q", "p": ""}))]}]}]}
    r = [rnd.random() < 0.8 for _ in range(3)]
    rels = ["lt", "le", "ne", "gt"]
    top_fields = [{"name": "s1", "kind": "obj", "cls": "Sub", "rand": r[0]},
                  {"name": "s2", "kind": "obj", "cls": "Sub", "rand": r[1]},
                  {"name": "s3", "kind": "obj", "cls": "Sub", "rand": r[2]},
                  {"name": "ol", "kind": "objlist", "cls": "Sub", "n": 2, "rand": rnd.random() < 0.8},
                  fld("y", 2, False)]
    blocks = [{"name": "t1", "dynamic": False, "body": [E(B(rnd.choice(rels), F("s1.x"), F("s2.x")))]},
              {"name": "t2", "dynamic": False, "body": [E(B(rnd.choice(rels), F("s2.x"), F("s3.x")))]},
              {"name": "t3", "dynamic": False, "body": [E(B(rnd.choice(rels), F("ol[0].x"), F("ol[1].x")))]},
              {"name": "t4", "dynamic": False, "body": [E(B(rnd.choice(["eq", "ne", "le"]), F("y"), F(rnd.choice(["s3.x", "ol[1].x", "s1.x"]))))]}]
    # nested foreach: the inner list is owned by the element of the outer one
    blocks.append({"name": "t6", "dynamic": False,
                   "body": [{"k": "foreach", "l": "ol", "v": "e", "it": True, "idx": False,
                             "body": [{"k": "foreach", "l": "il", "of": "e", "v": "q", "it": True, "idx": False,
                                       "body": [E(B(rnd.choice(["ne", "le"]), {"k": "it", "v": "q", "p": ""}, F("y")))]}]}]})
    if rnd.random() < 0.5:
        blocks.append({"name": "t5", "dynamic": False,
                       "body": [{"k": "foreach", "l": "ol", "v": "e", "it": True, "idx": False,
                                 "body": [E(B(rnd.choice(["ne", "le"]), {"k": "it", "v": "e", "p": "x"}, F("s2.x")))]}]})
    return {"classes": {"Sub": sub, "Top": {"base": "", "fields": top_fields, "blocks": blocks}},
            "population": [{"id": "o1", "cls": "Top"}, {"id": "o2", "cls": "Top"}]}


def family_siblings(tier, seed, n=None):
    out = []
    n = n or (20 if tier == "quick" else 300)
    for t in range(n):
        core = t < n // 2
        rnd = random.Random((808 if core else 8100 + seed) * 100003 + t)
        world = world_siblings(rnd)
        paths = ["o1.s1.x", "o1.s2.x", "o1.s3.x", "o1.ol[0].x", "o1.ol[1].x", "o1.y"]      # 12 bits: sampled to cap
        allp = paths + ["o1.s1.z", "o1.s2.z", "o1.s3.z", "o1.ol[0].z", "o1.ol[1].z"]
        ops = [{"op": "construct", "o": "o1"}, {"op": "construct", "o": "o2"}]
        # the inner lists of the two list elements get different lengths
        for _ in range(rnd.randint(1, 2)):
            ops.append({"op": "list", "kind": "l_append", "p": "o1.ol[1].il", "vs": [bits(rnd.randrange(4), 2)]})
        if rnd.random() < 0.3:
            ops.append({"op": "list", "kind": "l_clear", "p": "o1.ol[0].il"})
        il_paths = []
        for i in range(rnd.randint(2, 4)):
            if rnd.random() < 0.5:
                p = rnd.choice(["s1.x", "s2.x", "s3.x", "ol[0].x", "ol[1].x"])
                ops.append({"op": "set", "p": "o1." + p, "v": bits(rnd.randrange(4), 2)})
            if rnd.random() < 0.4:
                # a member's own list grows BETWEEN calls (list elements and plain members alike)
                ops.append({"op": "list", "kind": "l_append", "p": "o1." + rnd.choice(["ol[0]", "ol[1]", "s1"]) + ".il", "vs": [bits(rnd.randrange(4), 2)]})
            ops.append({"op": "call", "call": rnd.choice([mcall("o1"), mcall("o2"),
                                                          {"kind": "free", "roots": ["o1.s2"], "owner": "", "inline": []},
                                                          wcall([E(B("ne", F("s1.x"), F("ol[0].x")))], "o1"),
                                                          # rooted at ONE member, the inline constraint reaches an element of the sibling
                                                          # object list (and another member): those are constants of the call
                                                          {"kind": "free_with", "roots": ["o1.s2"], "owner": "",
                                                           "inline": [E(B("ne", F("o1.s2.x"), F("o1.ol[%d].x" % (i % 2)))), E(B("le", F("o1.s2.x"), F("o1.s3.x")))]},
                                                          {"kind": "free_with", "roots": ["o1.s1"], "owner": "",
                                                           "inline": [E(B("ne", F("o1.s1.x"), F("o1.ol[1].x")))]}])})
            if rnd.random() < 0.35:
                # the object list is emptied and refilled with fresh objects: ol[K] now denotes the NEW element
                ops.append({"op": "ol_refill", "p": "o1.ol"})
                ops.append({"op": "call", "call": mcall("o1")})
            elif rnd.random() < 0.35:
                # one element is replaced by index assignment: ol[K] now denotes the new object, its neighbours stay
                ops.append({"op": "set", "p": "o1.ol[%d].z" % (i % 2), "v": bits(rnd.randrange(2), 1)})
                ops.append({"op": "ol_setitem", "p": "o1.ol", "i": i % 2})
                ops.append({"op": "call", "call": mcall("o1")})
            ops.append({"op": "probe", "call": wcall([], "o1"), "paths": "ALL:o1", "mode": "around", "nsol": 4, "cap": 200})
        ops.append({"op": "probe", "call": wcall([], "o1"), "paths": "ALL:o1", "cap": 600})
        out.append({"id": "SB/%s/%d" % ("core" if core else "s%d" % seed, t), "world": world, "ops": ops, "tags": []})
    return out


# ------------------------------------------------------------------------------------------
# callbacks defined only in a derived class; pre_randomize assigning the non-random bound of a random-size list (C17)
# ------------------------------------------------------------------------------------------
def family_cb_special(tier, seed, n=None):
    out = []
    n = n or (6 if tier == "quick" else 40)
    for t in range(n):
        rnd = random.Random(1770 * 100003 + t + (0 if t < n // 2 else seed * 131))
        base = {"base": "", "cb": False, "fields": [fld("x", 2, False), fld("z", 2, False, rand=False, init=1)],
                "blocks": [{"name": "bc", "dynamic": False, "body": [E(B("ne", F("x"), F("z")))]}]}
        der = {"base": "Base", "cb": True, "fields": [fld("w", 2, False)],            # the hooks exist in the derived class only
               "blocks": [{"name": "dc", "dynamic": False, "body": [E(B("le", F("w"), F("x")))]}]}
        top = {"base": "", "cb": True,
               "fields": [fld("y", 2, False), fld("k", 2, False, rand=False, init=0),
                          {"name": "d1", "kind": "obj", "cls": "Der", "rand": True},
                          {"name": "b1", "kind": "obj", "cls": "Base", "rand": True},
                          {"name": "dl", "kind": "objlist", "cls": "Der", "n": 2, "rand": True},
                          {"name": "rl", "kind": "list", "w": 2, "signed": False, "rand": True, "randsz": True, "init": [], "cap": 5}],
               "blocks": [{"name": "c1", "dynamic": False, "body": [E(B("le", F("d1.x"), F("y")))]},
                          # the size of the random-size list is bounded by a non-random field that pre_randomize assigns
                          {"name": "c2", "dynamic": False, "body": [E(B("eq", {"k": "size", "l": "rl"}, B("add", F("k"), lit(1))))]}]}
        world = {"classes": {"Base": base, "Der": der, "Top": top},
                 "population": [{"id": "o1", "cls": "Top"}, {"id": "d0", "cls": "Der"}]}
        ops = [{"op": "construct", "o": "o1"}, {"op": "construct", "o": "d0"}]
        if t % 2 == 1:
            # an element of the random object list is replaced by index assignment: the new object is a random element like any
            ops += [{"op": "call", "call": mcall("o1")}, {"op": "ol_setitem", "p": "o1.dl", "i": t % 4 // 2, "plain": True}]
        kv = 0
        for i in range(rnd.randint(4, 6)):
            r = rnd.random()
            if r < 0.25:
                ops.append({"op": "call", "call": mcall("d0")})
            elif r < 0.4:
                ops.append({"op": "call", "call": {"kind": "free", "roots": ["o1.d1"], "owner": "", "inline": []}})
            else:
                kv = (kv + rnd.choice([1, 1, 2])) % 4 if rnd.random() < 0.7 else rnd.randrange(4)
                ops.append({"op": "call", "call": rnd.choice([mcall("o1"), wcall([E(B("ne", F("y"), lit(0)))], "o1")]),
                            "cb_script": [{"ph": "pre", "o": "o1", "assign": "o1.k", "v": bits(kv, 2)}]})
        out.append({"id": "T17/special/%d" % t, "world": world, "ops": ops, "tags": []})
    return out


def family_cb_nothing_to_solve(tier, seed):
    """calls that have nothing to solve - every random field switched off with rand_mode, or a tree that declares no random
    scalar and no constraint at all: the hooks still run once each, before and after, on the top object and its random members"""
    out = []
    for t in range(4 if tier == "quick" else 12):
        leaf = {"base": "", "cb": True, "fields": [fld("x", 2, False, rand=t % 2 == 0), fld("z", 2, False, rand=False, init=1)], "blocks": []}
        top = {"base": "", "cb": True,
               "fields": [fld("a", 2, False, rand=t % 2 == 0), fld("k", 2, False, rand=False, init=0),
                          {"name": "s", "kind": "obj", "cls": "Leaf", "rand": True},
                          {"name": "ol", "kind": "objlist", "cls": "Leaf", "n": 2, "rand": True}],
               "blocks": [] if t % 4 < 2 else [{"name": "c1", "dynamic": False, "body": [E(B("le", F("a"), lit(3)))]}]}
        world = {"classes": {"Leaf": leaf, "Top": top}, "population": [{"id": "o1", "cls": "Top"}]}
        calls = [mcall("o1"), wcall([], "o1"), {"kind": "free", "roots": ["o1"], "owner": "", "inline": []},
                 {"kind": "free", "roots": ["o1.s"], "owner": "", "inline": []}]
        ops = [{"op": "construct", "o": "o1"}]
        rand_paths = ["o1.a", "o1.s.x", "o1.ol[0].x", "o1.ol[1].x"] if t % 2 == 0 else []
        ops += [{"op": "call", "call": c} for c in calls[:2]]
        for p in rand_paths:
            ops.append({"op": "rand_mode", "p": p, "b": False})
        if t % 4 >= 2:
            ops.append({"op": "cmode", "o": "o1", "b": "c1", "en": False})
        for c in calls:
            ops.append({"op": "call", "call": c, "cb_script": [{"ph": "pre", "o": c["roots"][0], "assign": c["roots"][0] + (".k" if c["roots"][0] == "o1" else ".z"), "v": bits(2, 2)}]})
        for p in rand_paths[:1]:
            ops.append({"op": "rand_mode", "p": p, "b": True})
        ops += [{"op": "call", "call": c} for c in calls[:3]]
        out.append({"id": "T17/nothing/%d" % t, "world": world, "ops": ops, "tags": []})
    return out
