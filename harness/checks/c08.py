"""C08 - constraints reach through the object hierarchy to exactly the fields they name."""
from .. import engine, fam_tree

LEVEL = "model_checking"


def run(tier, seed, limit=0):
    chk = engine.Check("C08", tier, seed)
    scs = fam_tree.family_siblings(tier, seed) + fam_tree.family_T(tier, seed, probes=True, tag="T08")
    if limit:
        scs = scs[:limit]
    chk.run_scenarios(scs, "Trace_VscRand")
    chk.run_mc("B_UsedRand", {"MaxLevel": 4 if tier == "quick" else 6}, label="is_used_rand mechanics |= UsedRand")
    return chk.finish(LEVEL, "trees with several sub-objects of one class, object lists and cross-level constraints naming one field per "
                      "distinct path (attribute chains, list indices, foreach over object lists), random / non-random sub-objects; probes "
                      "pin every scalar of the whole tree (solutions, their single-field mutations and random rows) so an aliased "
                      "reference or a sub-object block enforced when it should not be changes a row; TLC compares with Sol",
                      ["TLC 1.8; VscRand UsedObjs/HardAll; world->DSL compiler"])
