CONSTANT U = {1, 2, 3, 4}
CONSTANT NSoft = 3
SPECIFICATION Spec
INVARIANT KeptIsGreedy
INVARIANT KeptIsMaximal
INVARIANT NeverFatal
CHECK_DEADLOCK FALSE
