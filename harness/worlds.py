"""World language -> (a) flattened structure for the TLA+ spec, (b) real pyvsc classes/objects.

The world language is owned by /verif (DESIGN appendix F).  Nothing in here reads pyvsc's internal
model to *judge* anything: the compiler turns the AST into ordinary user-level DSL calls, the
projection reads values through the public API.
"""
import enum
import re
import vsc

M = lambda w: (1 << w) - 1


def bits(v, w):
    """two's complement bits of integer v at width w, LSB first"""
    v &= M(w)
    return [(v >> i) & 1 for i in range(w)]


def unbits(b, signed=False):
    v = sum(x << i for i, x in enumerate(b))
    if signed and b and b[-1]:
        v -= 1 << len(b)
    return v


def enc(v, w, signed):
    """encode a value read from the library: w bits if it is inside the declared type, else a
    wider vector so that the spec's in_type clause (Len = w) states the failure"""
    v = int(v)
    lo, hi = (-(1 << (w - 1)), (1 << (w - 1)) - 1) if signed else (0, M(w))
    if lo <= v <= hi:
        return bits(v, w)
    ww = max(w + 1, v.bit_length() + 2)
    return bits(v, ww)


def lit(v, w=32, s=True):
    return {"k": "lit", "w": w, "s": s, "bits": bits(v, w)}


def F(p):
    return {"k": "f", "p": p}


def B(op, l, r):
    if isinstance(l, int):
        l = lit(l)
    if isinstance(r, int):
        r = lit(r)
    return {"k": "bin", "op": op, "l": l, "r": r}


def E(e):
    return {"k": "e", "e": e}


# ------------------------------------------------------------------------------------------
# flattening (structure only)
# ------------------------------------------------------------------------------------------
def class_fields(world, cls):
    """fields of cls including inherited ones, base first"""
    c = world["classes"][cls]
    out = []
    if c.get("base"):
        out.extend(class_fields(world, c["base"]))
    out.extend(c["fields"])
    return out


def norm_stmts(sts):
    """total records for the specification: every foreach statement carries 'of' (enclosing iteration variable, or "")"""
    out = []
    for st in sts:
        st = dict(st)
        k = st.get("k")
        if k == "foreach":
            st.setdefault("of", "")
            st["body"] = norm_stmts(st["body"])
        elif k == "if":
            st["arms"] = [dict(a, body=norm_stmts(a["body"])) for a in st["arms"]]
            st["els"] = norm_stmts(st["els"])
        elif k == "imp":
            st["body"] = norm_stmts(st["body"])
        out.append(st)
    return out


def flatten(world):
    W = {"classes": {}, "objs": {}, "lists": {}, "scalars": {}, "rls": {}}
    for cn, c in world["classes"].items():
        ftypes = {}
        for f in class_fields(world, cn):
            if f["kind"] == "scalar":
                ftypes[f["name"]] = {"w": f["w"], "s": f["signed"]}
            elif f["kind"] == "enum":
                ftypes[f["name"]] = {"w": 32, "s": True}
        W["classes"][cn] = {"base": c.get("base") or "",
                            "blocks": [dict(b, body=norm_stmts(b["body"])) for b in c.get("blocks", [])],
                            "ftypes": ftypes or {"_": {"w": 1, "s": False}},
                            "hascb": bool(c.get("cb"))}

    def add_scalar(path, f, owner, top, declrand):
        if f["kind"] == "enum":
            W["scalars"][path] = {"w": 32, "s": True, "owner": owner, "declrand": declrand,
                                  "enum": [bits(v, 32) for v in f["values"]], "top": top,
                                  "init": bits(f.get("init", f["values"][0]), 32)}
        else:
            W["scalars"][path] = {"w": f["w"], "s": f["signed"], "owner": owner, "declrand": declrand,
                                  "enum": [], "top": top, "init": bits(f.get("init", 0), f["w"])}

    def add_obj(path, cls, parent, declrand, top):
        mi = re.search(r"\[(\d+)\]$", path)
        # idx: position of a list element in the population of its object list (-1: not a list element)
        W["objs"][path] = {"cls": cls, "parent": parent, "declrand": declrand, "top": top, "idx": int(mi.group(1)) if mi else -1}
        for f in class_fields(world, cls):
            p = path + "." + f["name"]
            k = f["kind"]
            if k in ("scalar", "enum"):
                add_scalar(p, f, path, top, f["rand"])
            elif k == "obj":
                add_obj(p, f["cls"], path, f["rand"], top)
            elif k == "objlist":
                W["lists"][p] = {"w": 1, "s": False, "owner": path, "declrand": f["rand"], "randsz": bool(f.get("randsz")),
                                 "cap": f["n"], "isobj": True, "cls": f["cls"], "top": top, "init": [],
                                 "n": f["n"]}
                for i in range(f["n"]):
                    # elements of a random object list are appended as rand_attr (pyvsc copies the
                    # list's declared-rand flag onto them)
                    add_obj("%s[%d]" % (p, i), f["cls"], p, f["rand"], top)
            elif k == "list":
                W["lists"][p] = {"w": f["w"], "s": f["signed"], "owner": path, "declrand": f["rand"],
                                 "randsz": bool(f.get("randsz")), "cap": f.get("cap", max(4, len(f.get("init", [])))),
                                 "isobj": False, "cls": "", "top": top, "n": 0,
                                 "init": [bits(v, f["w"]) for v in f.get("init", [])]}
            elif k == "rangelist":
                W["rls"][p] = {"top": top, "init": [rl_item(it) for it in f["items"]]}

    for ent in world["population"]:
        if "cls" in ent:
            add_obj(ent["id"], ent["cls"], "", False, ent["id"])
        else:
            add_scalar(ent["id"], ent, "", ent["id"], ent["rand"])
    # TLC turns {} into an empty record, which is fine, but keep every map non-degenerate in type
    return W


def rl_item(it):
    if isinstance(it, (list, tuple)):
        return [bits(it[0], 32), bits(it[1], 32)]
    return [bits(it, 32), bits(it, 32)]


# ------------------------------------------------------------------------------------------
# compiling the AST to DSL calls
# ------------------------------------------------------------------------------------------
PYOP = {"eq": lambda a, b: a == b, "ne": lambda a, b: a != b, "lt": lambda a, b: a < b, "le": lambda a, b: a <= b,
        "gt": lambda a, b: a > b, "ge": lambda a, b: a >= b, "add": lambda a, b: a + b, "sub": lambda a, b: a - b,
        "mul": lambda a, b: a * b, "div": lambda a, b: a / b, "mod": lambda a, b: a % b, "and": lambda a, b: a & b,
        "or": lambda a, b: a | b, "xor": lambda a, b: a ^ b, "sll": lambda a, b: a << b, "srl": lambda a, b: a >> b}


class Emit:
    """emits DSL calls for an AST; `resolve(rel)` maps a relative path to the python object/expr"""

    def __init__(self, root_lookup, fault_path=None, fire=None):
        self.lookup = root_lookup     # rel path string -> python attribute chain result (in expr mode)
        self.bind = {}
        # fault injection (C16): the user code raises when elaboration reaches the statement position `fault_path` - a tuple
        # (top-level index, index inside that compound statement, ...); an index equal to the length of a body is its end;
        # inside an `if` the indices run over the arm bodies and the else body laid end to end, each followed by its end position
        self.fault_path = tuple(fault_path) if fault_path is not None else None
        self.fire = fire

    def path(self, p):
        return self.lookup(p)

    def lit_val(self, e):
        return unbits(e["bits"], e["s"])

    def expr(self, e):
        k = e["k"]
        if k == "f":
            return self.path(e["p"])
        if k == "lit":
            v = self.lit_val(e)
            if e["w"] == 32 and e["s"]:
                return v
            return (vsc.signed if e["s"] else vsc.unsigned)(v, e["w"])
        if k == "it":
            it = self.bind[e["v"]]["it"]
            return getattr(it, e["p"]) if e["p"] else it
        if k == "ix":
            return self.bind[e["v"]]["idx"]
        if k == "sub":
            lst = self.path(e["l"])
            i = self.expr(e["i"])
            el = lst[i]
            return getattr(el, e["p"]) if e["p"] else el
        if k == "bin":
            l = self.expr(e["l"])
            if isinstance(l, int):
                l = vsc.signed(l, 32)
            r = self.expr(e["r"])
            return PYOP[e["op"]](l, r)
        if k == "not":
            x = self.expr(e["e"])
            return ~x
        if k == "part":
            x = self.expr(e["e"])
            if e["hi"] == e["lo"] and e.get("bit"):
                return x[e["hi"]]
            return x[e["hi"]:e["lo"]]
        if k == "in":
            return self.emit_in(e)
        if k == "dyn":
            o = self.path(e["o"]) if e["o"] else self.path("")
            return getattr(o, e["b"])()
        if k == "dyni":
            return getattr(self.path(e["l"])[self.expr(e["i"])], e["b"])()
        if k == "size":
            return self.path(e["l"]).size
        if k == "sum":
            return self.path(e["l"]).sum
        if k == "prod":
            return self.path(e["l"]).product
        raise ValueError("expr kind " + k)

    def emit_in(self, e):
        tgt = self.expr(e["e"])
        if isinstance(tgt, int):
            tgt = vsc.signed(tgt, 32)
        items = e["items"]
        if len(items) == 1 and items[0]["k"] in ("rl", "l"):
            cont = self.path(items[0]["p"])
            return tgt.not_inside(cont) if e["neg"] else tgt.inside(cont)
        args = []
        for it in items:
            if it["k"] == "v":
                args.append(self.expr(it["e"]))
            elif it["k"] == "r":
                args.append(vsc.rng(self.expr(it["lo"]), self.expr(it["hi"])))
            else:
                raise ValueError("list/rangelist item must be alone")
        rl = vsc.rangelist(*args)
        return tgt.not_inside(rl) if e["neg"] else tgt.inside(rl)

    def at(self, pos):
        if self.fault_path is not None and tuple(pos) == self.fault_path:
            self.fire()

    def stmts(self, ss, prefix=(), off=0):
        for i, s in enumerate(ss):
            self.at(prefix + (off + i,))
            self.stmt(s, prefix + (off + i,))
        self.at(prefix + (off + len(ss),))

    def stmt(self, s, cur=()):
        k = s["k"]
        if k == "e":
            self.expr(s["e"])
        elif k == "if":
            off = 0
            for i, arm in enumerate(s["arms"]):
                with (vsc.if_then if i == 0 else vsc.else_if)(self.expr(arm["c"])):
                    self.stmts(arm["body"], cur, off)
                off += len(arm["body"]) + 1
            if s["els"]:
                with vsc.else_then:
                    self.stmts(s["els"], cur, off)
        elif k == "imp":
            with vsc.implies(self.expr(s["c"])):
                self.stmts(s["body"], cur)
        elif k == "uniq":
            args = []
            for a in s["args"]:
                args.append(self.path(a["p"]) if a["k"] == "lst" else self.expr(a))
            vsc.unique(*args)
        elif k == "uniqv":
            vsc.unique_vec(*[self.path(p) for p in s["ls"]])
        elif k == "foreach":
            if s.get("of"):
                lst = getattr(self.bind[s["of"]]["it"], s["l"])       # a list owned by the element of an enclosing foreach
            else:
                lst = self.path(s["l"])
            use_it, use_idx = s.get("it", True), s.get("idx", False)
            if use_it and use_idx:
                with vsc.foreach(lst, idx=True, it=True) as (i, it):
                    self.bind[s["v"]] = {"it": it, "idx": i}
                    self.stmts(s["body"], cur)
            elif use_idx:
                with vsc.foreach(lst, idx=True) as i:
                    self.bind[s["v"]] = {"idx": i}
                    self.stmts(s["body"], cur)
            else:
                with vsc.foreach(lst) as it:
                    self.bind[s["v"]] = {"it": it}
                    self.stmts(s["body"], cur)
            self.bind.pop(s["v"], None)
        elif k == "soft":
            vsc.soft(self.expr(s["e"]))
        elif k == "order":
            a = [self.path(p) for p in s["a"]]
            b = [self.path(p) for p in s["b"]]
            vsc.solve_order(a if len(a) > 1 else a[0], b if len(b) > 1 else b[0])
        elif k == "dist":
            ws = []
            for ent in s["ws"]:
                it = ent["it"]
                # (operands are built in the order a user writes them: the value or the bounds, then the weight)
                if it["k"] == "v":
                    ws.append(vsc.weight(self.expr(it["e"]), self.expr(ent["w"])))
                else:
                    ws.append(vsc.weight((self.expr(it["lo"]), self.expr(it["hi"])), self.expr(ent["w"])))
            vsc.dist(self.expr(s["e"]), ws)
        else:
            raise ValueError("stmt kind " + k)


def chain_lookup(root):
    """lookup of a relative path ('a', 's1.x', 'ol[1].x', '' = root itself) from python object root"""
    import re
    tok = re.compile(r"([A-Za-z_][A-Za-z_0-9]*)|\[(\d+)\]")

    def look(p):
        o = root
        for m in tok.finditer(p):
            if m.group(1):
                o = getattr(o, m.group(1))
            else:
                o = o[int(m.group(2))]
        return o
    return look


# ------------------------------------------------------------------------------------------
# building classes
# ------------------------------------------------------------------------------------------
class Recorder:
    """receives callback events from generated pre_/post_randomize methods"""
    def __init__(self):
        self.events = []
        self.on_event = None


REC = Recorder()


def build_classes(world, hooks=None):
    """returns {class name: pyvsc randobj class}; `hooks` may carry fault injection:
    hooks['raise'] = set of (where, cls, name) positions at which the generated user code raises"""
    built = {}
    enums = {}
    hooks = hooks if hooks is not None else {}

    def enum_type(cn, f):
        key = (cn, f["name"])
        if key not in enums:
            enums[key] = enum.IntEnum("E_%s_%s" % key, {("v%d" % v).replace("-", "m"): v for v in f["values"]})
        return enums[key]

    def mk_field(cn, f):
        k = f["kind"]
        if k == "scalar":
            if f["rand"]:
                t = (vsc.rand_int_t if f["signed"] else vsc.rand_bit_t)
            else:
                t = (vsc.int_t if f["signed"] else vsc.bit_t)
            return t(f["w"], i=f.get("init", 0))
        if k == "enum":
            et = enum_type(cn, f)
            init = et(f.get("init", f["values"][0]))
            return (vsc.rand_enum_t if f["rand"] else vsc.enum_t)(et, i=init)
        if k == "obj":
            o = built[f["cls"]]()
            return vsc.rand_attr(o) if f["rand"] else vsc.attr(o)
        if k == "objlist":
            proto = built[f["cls"]]()
            # a random-size object list is populated by the user; the solver chooses how many of the elements are exposed
            l = vsc.randsz_list_t(proto) if f.get("randsz") else (vsc.rand_list_t if f["rand"] else vsc.list_t)(proto)
            for _ in range(f["n"]):
                e = built[f["cls"]]()
                l.append(vsc.rand_attr(e) if f["rand"] else vsc.attr(e))
            return l
        if k == "list":
            et = (vsc.int_t if f["signed"] else vsc.bit_t)(f["w"])
            init = list(f.get("init", []))
            if f.get("randsz"):
                l = vsc.randsz_list_t(et)
                if init:
                    l.extend(init)
                return l
            return vsc.list_t(et, is_rand=bool(f["rand"]), init=init if init else None)
        if k == "rangelist":
            return vsc.rangelist(*[tuple(it) if isinstance(it, (list, tuple)) else it for it in f["items"]])
        raise ValueError(k)

    def mk_class(cn):
        if cn in built:
            return built[cn]
        c = world["classes"][cn]
        base = mk_class(c["base"]) if c.get("base") else None
        # classes of member objects first
        for f in c["fields"]:
            if f["kind"] in ("obj", "objlist"):
                mk_class(f["cls"])

        def init(self, _c=c, _cn=cn, _base=base):
            if _base is not None:
                _base.__init__(self)
            for f in _c["fields"]:
                if ("ctor_field", _cn, f["name"]) in hooks.get("raise", ()):
                    raise hooks["exc"]("injected at ctor_field %s.%s" % (_cn, f["name"]))
                setattr(self, f["name"], mk_field(_cn, f))

        ns = {"__init__": init}
        for blk in c.get("blocks", []):
            def body(self, _blk=blk, _cn=cn):
                pos = hooks.get("raise_in_block", {}).get((_cn, _blk["name"]))
                if isinstance(pos, int):
                    pos = (min(pos, len(_blk["body"])),)

                def fire():
                    hooks.get("on_fire", lambda: None)()
                    raise hooks["exc"]("injected in block %s.%s at %s" % (_cn, _blk["name"], pos))
                Emit(chain_lookup(self), pos, fire).stmts(_blk["body"])
            body.__name__ = blk["name"]
            ns[blk["name"]] = (vsc.dynamic_constraint if blk.get("dynamic") else vsc.constraint)(body)
        if c.get("cb"):
            def pre_randomize(self):
                REC.on_event("pre", self)

            def post_randomize(self):
                REC.on_event("post", self)
            ns["pre_randomize"] = pre_randomize
            ns["post_randomize"] = post_randomize
        bases = (base,) if base is not None else (object,)
        T = type(cn, bases, ns)
        built[cn] = vsc.randobj(T)
        return built[cn]

    for cn in world["classes"]:
        mk_class(cn)
    built["__enums__"] = enums
    return built


def build_free(ent, enums=None):
    if ent.get("kind") == "enum":
        key = ("", ent["id"])
        if enums is not None and key not in enums:
            enums[key] = enum.IntEnum("E_free_%s" % ent["id"], {("v%d" % v).replace("-", "m"): v for v in ent["values"]})
        et = enums[key]
        init = et(ent.get("init", ent["values"][0]))
        return (vsc.rand_enum_t if ent["rand"] else vsc.enum_t)(et, i=init)
    if ent["rand"]:
        t = vsc.rand_int_t if ent["signed"] else vsc.rand_bit_t
    else:
        t = vsc.int_t if ent["signed"] else vsc.bit_t
    return t(ent["w"], i=ent.get("init", 0))
