"""MANIFEST.setup_cmd: parse every specification module with SANY (offline, from files on disk)."""
import glob
import os
import subprocess
import sys

ROOT = os.path.dirname(os.path.dirname(os.path.abspath(__file__)))


def main():
    os.makedirs(os.path.join(ROOT, "out"), exist_ok=True)
    os.makedirs(os.path.join(ROOT, "evidence"), exist_ok=True)
    # constant inputs of the model-checking configurations
    env = dict(os.environ)
    p = subprocess.run([sys.executable, "-m", "harness.mkmc"], cwd=ROOT, capture_output=True, text=True, env=env)
    print(p.stdout.strip() or p.stderr[-500:])
    bad = 0 if p.returncode == 0 else 1
    for f in sorted(glob.glob(os.path.join(ROOT, "spec", "*.tla"))):
        p = subprocess.run(["java", "-cp", "/opt/veriftools/tla/tla2tools.jar:/opt/veriftools/tla/CommunityModules-deps.jar",
                            "tla2sany.SANY", os.path.basename(f)], cwd=os.path.join(ROOT, "spec"),
                           capture_output=True, text=True)
        ok = p.returncode == 0 and "*** Errors" not in p.stdout
        print(("ok   " if ok else "FAIL ") + os.path.basename(f))
        if not ok:
            print(p.stdout[-2000:])
            bad += 1
    sys.exit(1 if bad else 0)


if __name__ == "__main__":
    main()
