------------------------------- MODULE BSoft -------------------------------
(* prototype: soft-constraint fallback loop of Randomizer.randomize vs reference greedy,
   constraint systems abstracted as subsets of a small universe of assignments *)
EXTENDS Naturals, Sequences, FiniteSets, TLC
CONSTANT U, NSoft
VARIABLE done
Subsets == SUBSET U
\* softs listed in statement order; priority = position (later wins)
Inter(S) == IF S = {} THEN U ELSE {u \in U : \A s \in S : u \in s}
\* reference: greedy by descending priority
RECURSIVE RefKept(_, _, _, _)
RefKept(hard, softs, i, kept) ==
  IF i = 0 THEN kept
  ELSE IF (hard \cap Inter({softs[k] : k \in kept}) \cap softs[i]) # {}
       THEN RefKept(hard, softs, i - 1, kept \cup {i}) ELSE RefKept(hard, softs, i - 1, kept)
\* implementation: assume all; if sat assert all; else one by one in descending priority
RECURSIVE ImplLoop(_, _, _, _)
ImplLoop(asserted, softs, i, kept) ==
  IF i = 0 THEN kept
  ELSE IF (asserted \cap softs[i]) # {} THEN ImplLoop(asserted \cap softs[i], softs, i - 1, kept \cup {i})
       ELSE ImplLoop(asserted, softs, i - 1, kept)
ImplKept(hard, softs) ==
  LET all == hard \cap Inter({softs[k] : k \in 1..NSoft}) IN
  IF all # {} THEN 1..NSoft ELSE ImplLoop(hard, softs, NSoft, {})
Maximal(hard, softs, kept) ==
  \A v \in (1..NSoft) \ kept : (hard \cap Inter({softs[k] : k \in kept}) \cap softs[v]) = {}
Check ==
  \A hard \in Subsets \ {{}} : \A softs \in [1..NSoft -> Subsets] :
     LET ik == ImplKept(hard, softs) IN
       /\ ik = RefKept(hard, softs, NSoft, {})
       /\ Maximal(hard, softs, ik)
       /\ (hard \cap Inter({softs[k] : k \in ik})) # {}
Init == done = FALSE
Next == done = FALSE /\ Assert(Check, "soft mismatch") /\ done' = TRUE
=============================================================================
