import sys, io, contextlib, collections
sys.path.insert(0,'/verif/proto'); import btorshim
import vsc
def q(f):
    with contextlib.redirect_stdout(io.StringIO()): return f()
LOG=[]
class CB:
    def pre_randomize(self): LOG.append(("pre",self.tag, getattr(self,'x',None) if hasattr(self,'x') else None))
    def post_randomize(self): LOG.append(("post",self.tag, self.x if hasattr(self,'x') else None))
@vsc.randobj
class Leaf(CB):
    def __init__(self,tag):
        self.tag=tag; self.x=vsc.rand_bit_t(4)
@vsc.randobj
class Mid(CB):
    def __init__(self,tag):
        self.tag=tag; self.x=vsc.rand_bit_t(4)
        self.r=vsc.rand_attr(Leaf(tag+".r")); self.n=vsc.attr(Leaf(tag+".n"))
@vsc.randobj
class Top(CB):
    def __init__(self):
        self.tag="top"; self.x=vsc.rand_bit_t(4)
        self.m1=vsc.rand_attr(Mid("m1")); self.m2=vsc.attr(Mid("m2"))
        self.ol=vsc.rand_list_t(vsc.rand_attr(Leaf("proto")))
        for i in range(2): self.ol.append(vsc.rand_attr(Leaf("ol%d"%i)))
        self.nl=vsc.list_t(vsc.attr(Leaf("proto2")))
        self.nl.append(vsc.attr(Leaf("nl0")))
t=Top()
def run(name,f):
    LOG.clear(); q(f)
    c=collections.Counter((p,tag) for p,tag,_ in LOG)
    print(name, "order:", [ (p,tag) for p,tag,_ in LOG])
    dup=[k for k,v in c.items() if v!=1]
    print("   dups:",dup)
run("method", t.randomize)
def w():
    with t.randomize_with() as it: it.x<5
run("with", w)
run("free", lambda: vsc.randomize(t))
run("free-sub", lambda: vsc.randomize(t.m2))
with vsc.raw_mode(): pass
