------------------------------ MODULE VscRand ------------------------------
(***************************************************************************)
(* Requirement-level (A) state machine of the randomization API.          *)
(*                                                                         *)
(* Every action is built from two pure operators over a state record S    *)
(* and an event record ev:  Clauses(W,S,ev) - a record of named BOOLEANs  *)
(* (guard + relation between the logged outcome and the state) - and      *)
(* Effect(W,S,ev).  MC_VscRand quantifies over possible events,           *)
(* Trace_VscRand plugs in logged ones: both check the same text.          *)
(*                                                                         *)
(* W (flattened world, structure only):                                    *)
(*   classes[c] = [base, blocks: Seq([name, dynamic, body]), ftypes]       *)
(*   objs[p]    = [cls, parent, declrand, top]      composite objects      *)
(*   lists[p]   = [w, s, owner, declrand, randsz, cap, isobj, cls, top, init]*)
(*   scalars[p] = [w, s, owner, declrand, enum, top, init]                 *)
(*   rls[p]     = [top, init]                                              *)
(* S: alive, vals, sz, rl, rmode, cmode                                    *)
(***************************************************************************)
EXTENDS Expr, Sequences, FiniteSets, SequencesExt

Failed(c) == {n \in DOMAIN c : ~c[n]}
SeqSet(s) == {s[i] : i \in 1..Len(s)}

EmptyState == [alive |-> {}, vals |-> << >>, sz |-> << >>, rl |-> << >>, rmode |-> << >>, cmode |-> << >>, memo |-> << >>]

CKey(o, b) == o \o "::" \o b

(* -------------------- structure: classes and blocks -------------------- *)
RECURSIVE BlockNames(_, _)
\* names of all (non-dynamic and dynamic) blocks visible in class cls, most-derived wins by name
BlockNames(W, cls) ==
  IF cls = "" THEN {}
  ELSE {W.classes[cls].blocks[i].name : i \in 1..Len(W.classes[cls].blocks)} \cup BlockNames(W, W.classes[cls].base)
StaticBlockNames(W, cls) == {b \in BlockNames(W, cls) : ~FindBlock(W, cls, b).dynamic}

(* ------------------------- which paths are random ---------------------- *)
ParentOf(W, p) == IF p \in DOMAIN W.objs THEN W.objs[p].parent ELSE W.lists[p].owner
DeclOf(W, p)   == IF p \in DOMAIN W.objs THEN W.objs[p].declrand ELSE W.lists[p].declrand
RECURSIVE UsedC(_, _, _, _)
\* composite (object or list) p is random for a call with the given roots
UsedC(W, S, roots, p) ==
  \/ p \in roots
  \/ /\ ParentOf(W, p) # ""
     /\ DeclOf(W, p) /\ S.rmode[p]
     /\ UsedC(W, S, roots, ParentOf(W, p))
UsedScalar(W, S, roots, x) ==
  \/ x \in roots
  \/ IF x \in DOMAIN W.scalars
     THEN /\ W.scalars[x].owner # ""
          /\ W.scalars[x].declrand /\ S.rmode[x]
          /\ UsedC(W, S, roots, W.scalars[x].owner)
     ELSE UsedC(W, S, roots, ListOfElem(W, x))          \* element of a scalar list
\* all random scalar paths of the call (over the paths that currently exist)
UsedRand(W, S, roots) == {x \in DOMAIN S.vals : UsedScalar(W, S, roots, x)}
UsedObjs(W, S, roots) == {o \in DOMAIN W.objs : W.objs[o].top \in S.alive /\ UsedC(W, S, roots, o)}
\* random-size lists whose size is a solver variable in this call
UsedSizes(W, S, roots) == {l \in DOMAIN S.sz : W.lists[l].randsz /\ UsedC(W, S, roots, l)}

\* an object is EXPOSED under sizes sz unless it is, or lies below, an element of an object list at a position >= the list's
\* size (a random-size object list keeps its population; the solved size says how many of them the list shows)
RECURSIVE Exposed(_, _, _)
Exposed(W, sz, p) ==
  IF p = "" THEN TRUE
  ELSE IF p \in DOMAIN W.objs
       THEN /\ (W.objs[p].idx < 0 \/ W.objs[p].parent \notin DOMAIN sz \/ W.objs[p].idx < sz[W.objs[p].parent])
            /\ Exposed(W, sz, W.objs[p].parent)
       ELSE Exposed(W, sz, W.lists[p].owner)

(* --------------------- active hard constraints of a call --------------- *)
Ctx(W, S, env, sz, own) == [W |-> W, own |-> own, env |-> env, sz |-> sz, rl |-> S.rl, bind |-> << >>]

EnumOK(W, x, v) == LET en == W.scalars[x].enum IN Len(en) = 0 \/ \E i \in 1..Len(en) : en[i] = v

\* verdict ("T"/"F"/"U") of all hard constraints of the call on candidate values env/sz
HardAll(W, S, call, env, sz) ==
  LET roots == SeqSet(call.roots)
      objs  == {o \in UsedObjs(W, S, roots) : Exposed(W, sz, o)}      \* what holds for hidden elements is not stated
      blk   == {<<o, b>> \in UNION {{<<o, b>> : b \in StaticBlockNames(W, W.objs[o].cls)} : o \in objs} :
                   S.cmode[CKey(o, b)]}
      C0    == Ctx(W, S, env, sz, "")
  IN All3({HoldsBlock(C0, ob[1], ob[2]) : ob \in blk}
          \cup {HoldsAll([C0 EXCEPT !.own = call.owner], call.inline)}
          \cup {Tv(EnumOK(W, x, env[x])) : x \in {y \in UsedRand(W, S, roots) : y \in DOMAIN W.scalars}})

(* ------------------------------ solutions ------------------------------ *)
\* candidate environments: every used-random scalar ranges over its type, the rest is fixed.
\* (only for fixed-size calls: random sizes are handled by the list clauses)
TypeVals(W, x) == LET t == TypeOfPath(W, x) IN
                  IF x \in DOMAIN W.scalars /\ Len(W.scalars[x].enum) > 0
                  THEN {W.scalars[x].enum[i] : i \in 1..Len(W.scalars[x].enum)}     \* an enum field ranges over its enumerators
                  ELSE AllVecs(t.w)
\* every assignment of the paths X over their own types, the rest of `base` kept: exactly the product of the |TypeVals(x)|
\* (a function set over the UNION of the value sets would enumerate ill-typed functions too - too many when widths are mixed)
RECURSIVE Assign(_, _, _)
Assign(W, X, base) ==
  IF X = {} THEN {base}
  ELSE LET x == CHOOSE y \in X : TRUE IN
       UNION {Assign(W, X \ {x}, [base EXCEPT ![x] = v]) : v \in TypeVals(W, x)}
Candidates(W, S, call, env) == Assign(W, UsedRand(W, S, SeqSet(call.roots)) \cap DOMAIN env, env)
WellTyped(W, e) == \A x \in DOMAIN e : Len(e[x]) = TypeOfPath(W, x).w /\ (x \in DOMAIN W.scalars => EnumOK(W, x, e[x]))
Sol(W, S, call, env) ==
  {e \in Candidates(W, S, call, env) : WellTyped(W, e) /\ HardAll(W, S, call, e, S.sz) = "T"}
\* TRUE iff some candidate definitely satisfies everything (candidates touching an open zone do
\* not count: the library has no obligation there, so a failure is accepted)
DefSat(W, S, call, env) ==
  \E e \in Candidates(W, S, call, env) : WellTyped(W, e) /\ HardAll(W, S, call, e, S.sz) = "T"
\* candidates when random-size lists take part: every admissible size, every value of the exposed elements
ListsOfElems(W, usz) == UNION {{ElemPath(l, i) : i \in 0..W.lists[l].cap} : l \in usz}
\* sizes tried for a random-size list: 0..3 for scalar lists, the whole population for object lists
MaxSz(W, l) == IF W.lists[l].isobj THEN W.lists[l].n ELSE 3
CandSz(W, S, call, env) ==
  LET roots == SeqSet(call.roots)
      usz   == UsedSizes(W, S, roots)
      fixed == DOMAIN env \ ListsOfElems(W, usz)
  IN UNION {
       LET sz2   == [l \in DOMAIN S.sz |-> IF l \in usz THEN szf[l] ELSE S.sz[l]]
           elems == UNION {{ElemPath(l, i - 1) : i \in 1..szf[l]} : l \in {m \in usz : ~W.lists[m].isobj}}
           dom   == fixed \cup elems
           S2    == [S EXCEPT !.sz = sz2, !.vals = [x \in dom |-> IF x \in DOMAIN env THEN env[x] ELSE Zero(TypeOfPath(W, x).w)]]
           used  == UsedRand(W, S2, roots)
       IN {<<e, sz2>> : e \in Assign(W, used \cap dom, [x \in dom |-> S2.vals[x]])}
       : szf \in {g \in [usz -> 0..4] : \A l \in usz : g[l] <= MaxSz(W, l)} }
DefSatSz(W, S, call, env) ==
  \E c \in CandSz(W, S, call, env) :
     /\ \A l \in DOMAIN c[2] : c[2][l] <= W.lists[l].cap
     /\ WellTyped(W, c[1])
     /\ HardAll(W, [S EXCEPT !.vals = c[1], !.sz = c[2]], call, c[1], c[2]) = "T"
SmallSz(W, S, call) ==
  LET usz == UsedSizes(W, S, SeqSet(call.roots)) IN
  usz # {} /\ Cardinality(usz) <= 2 /\ \A l \in usz : W.lists[l].w <= 2 /\ (W.lists[l].isobj => W.lists[l].n <= 4)
TotalBits(W, S, call) ==
  LET used == UsedRand(W, S, SeqSet(call.roots)) IN
  IF used = {} THEN 0 ELSE
  LET RECURSIVE Sum(_)
      Sum(X) == IF X = {} THEN 0 ELSE LET x == CHOOSE y \in X : TRUE IN TypeOfPath(W, x).w + Sum(X \ {x})
  IN Sum(used)
FixedBits(W, S, call) ==
  LET roots == SeqSet(call.roots)
      used == UsedRand(W, S, roots) \ ListsOfElems(W, UsedSizes(W, S, roots))
      RECURSIVE Sum(_)
      Sum(X) == IF X = {} THEN 0 ELSE LET x == CHOOSE y \in X : TRUE IN TypeOfPath(W, x).w + Sum(X \ {x})
  IN Sum(used)
Small(W, S, call) == TotalBits(W, S, call) <= 12 /\ UsedSizes(W, S, SeqSet(call.roots)) = {}

(* ----------------------------- soft constraints (C05) -------------------- *)
\* enabled static blocks of the used-random objects of a call
EnabledBlocks(W, S, call) ==
  LET objs == UsedObjs(W, S, SeqSet(call.roots)) IN
  {ob \in UNION {{<<o, b>> : b \in StaticBlockNames(W, W.objs[o].cls)} : o \in objs} : S.cmode[CKey(ob[1], ob[2])]}
\* applicable soft constraints: [own, blk, idx, inl, sf] with sf = [g: guards, e]
SoftItems(W, S, call) ==
  LET cls == UNION {LET sfs == SoftsOf(FindBlock(W, W.objs[ob[1]].cls, ob[2]).body, << >>) IN
                    {[own |-> ob[1], blk |-> ob[2], idx |-> i, inl |-> FALSE, sf |-> sfs[i]] : i \in 1..Len(sfs)}
                    : ob \in EnabledBlocks(W, S, call)}
      \* inline statements in order: a soft statement (possibly guarded), or a plain reference to a dynamic block,
      \* whose own soft statements then take part at the position of the reference
      RefObj(e) == AbsP(call.owner, e.o)
      inlAt(i) == LET st == call.inline[i] IN
                  IF st.k = "e" /\ st.e.k = "dyn"
                  THEN LET sfs == SoftsOf(FindBlock(W, W.objs[RefObj(st.e)].cls, st.e.b).body, << >>) IN
                       {[own |-> RefObj(st.e), blk |-> "", idx |-> i * 100 + j, inl |-> TRUE, sf |-> sfs[j]] : j \in 1..Len(sfs)}
                  ELSE LET sfs == SoftsOf(<<st>>, << >>) IN
                       {[own |-> call.owner, blk |-> "", idx |-> i * 100 + j, inl |-> TRUE, sf |-> sfs[j]] : j \in 1..Len(sfs)}
      inl == UNION {inlAt(i) : i \in 1..Len(call.inline)}
  IN cls \cup inl
\* documented priority: b is stated later in the same block than a, or b is inline and a class-level
Higher(a, b) == \/ (~a.inl /\ b.inl)
                \/ (a.inl /\ b.inl /\ a.idx < b.idx)                                     \* one inline block per call
                \/ (~a.inl /\ ~b.inl /\ a.own = b.own /\ a.blk = b.blk /\ a.idx < b.idx)
\* ord lists the items in the order they are honoured (descending priority): a linear extension
Respects(ord) == \A i, j \in 1..Len(ord) : i < j => ~Higher(ord[i], ord[j])
PosIn(ord, x) == CHOOSE i \in 1..Len(ord) : ord[i] = x

SoftAccept(W, S, call, post) ==
  LET items == SoftItems(W, S, call)
      holds(it, e) == SoftHolds(Ctx(W, S, e, S.sz, it.own), it.sf)
  IN IF items = {} THEN TRUE
     ELSE IF \E it \in items : holds(it, post) = "U" THEN TRUE          \* open zone
     ELSE LET K == {it \in items : holds(it, post) = "T"}
              V == items \ K
              SolH == Sol(W, S, call, S.vals)
              SatAll(X) == {e \in SolH : \A it \in X : holds(it, e) = "T"}
          IN V = {}
             \/ /\ \A v \in V : SatAll(K \cup {v}) = {}                                  \* maximal
                /\ \E ord \in SetToSeqs(items) :                                          \* later / inline wins
                      /\ Respects(ord)
                      /\ \A v \in V : SatAll({k \in K : PosIn(ord, k) < PosIn(ord, v)} \cup {v}) = {}

SzElems(W, ls) == UNION {{ElemPath(l, i) : i \in 0..W.lists[l].cap} : l \in ls}

(* ------------------------------ projection ----------------------------- *)
Proj(S) == [v |-> S.vals, sz |-> S.sz]

InType(W, x, v) == Len(v) = TypeOfPath(W, x).w /\ (x \in DOMAIN W.scalars => EnumOK(W, x, v))

(* ------------------------------- callbacks ----------------------------- *)
\* objects that must receive pre_/post_randomize: the used-random composites that are objects
\* ev.cbs is the sequence of callback records [ph: "pre"|"post", o: object path, seen: projection v]
CbSeq(ev, ph) == SelectSeq(ev.cbs, LAMBDA c : c.ph = ph)
NoDup(s) == \A i, j \in 1..Len(s) : i # j => s[i] # s[j]
CbObjs(ev, ph) == {c.o : c \in SeqSet(CbSeq(ev, ph))}
\* objects that define the callback in this world
HasCb(W, o) == W.classes[W.objs[o].cls].hascb

(* -------------------------- idle construction state -------------------- *)
Idle(stk) == \A k \in DOMAIN stk : stk[k] = 0

(* ================================ events =============================== *)
(* --- construct: a top-level object (or free scalar / list) comes to life *)
TopScalars(W, o) == {x \in DOMAIN W.scalars : W.scalars[x].top = o}
TopLists(W, o)   == {l \in DOMAIN W.lists : W.lists[l].top = o}
TopObjs(W, o)    == {p \in DOMAIN W.objs : W.objs[p].top = o}
TopRls(W, o)     == {r \in DOMAIN W.rls : W.rls[r].top = o}
ListElems(W, L)  == UNION {{ElemPath(l, i - 1) : i \in 1..Len(W.lists[l].init)} : l \in {m \in L : ~W.lists[m].isobj}}
ConstructEffect(W, S, ev) ==
  LET o == ev.o
      sc == TopScalars(W, o)  ls == TopLists(W, o)  ob == TopObjs(W, o)  rr == TopRls(W, o)
      el == ListElems(W, ls)
      elemInit(p) == LET l == ListOfElem(W, p)
                         i == CHOOSE j \in 1..Len(W.lists[l].init) : ElemPath(l, j - 1) = p
                     IN W.lists[l].init[i]
  IN [alive |-> S.alive \cup {o},
      vals  |-> [x \in sc |-> W.scalars[x].init] @@ [p \in el |-> elemInit(p)] @@ S.vals,
      sz    |-> [l \in ls |-> IF W.lists[l].isobj THEN W.lists[l].n ELSE Len(W.lists[l].init)] @@ S.sz,
      rl    |-> [r \in rr |-> W.rls[r].init] @@ S.rl,
      rmode |-> [p \in sc \cup ls \cup ob |-> TRUE] @@ S.rmode,
      cmode |-> [k \in UNION {{CKey(p, b) : b \in BlockNames(W, W.objs[p].cls)} : p \in ob} |-> TRUE] @@ S.cmode,
      memo  |-> S.memo]
ConstructClauses(W, S, ev) ==
  [ not_yet_alive   |-> ev.o \notin S.alive,
    no_exception    |-> IF "fired" \in DOMAIN ev /\ ev.fired THEN ev.exc = "Injected" ELSE ev.exc = "none",
    init_projection |-> ev.exc = "none" => ev.post = Proj(ConstructEffect(W, S, ev)),
    idle_after      |-> Idle(ev.stk) ]

(* --- plain state changes through the API ------------------------------- *)
SetClauses(W, S, ev) ==
  [ known_path   |-> ev.p \in DOMAIN S.vals,
    no_exception |-> ev.exc = "none",
    in_type      |-> InType(W, ev.p, ev.v),
    post_is_effect |-> ev.post = Proj([S EXCEPT !.vals[ev.p] = ev.v]),
    idle_after   |-> Idle(ev.stk) ]
SetEffect(W, S, ev) == [S EXCEPT !.vals[ev.p] = ev.v]

RandModeClauses(W, S, ev) ==
  [ known_path |-> ev.p \in DOMAIN S.rmode, no_exception |-> ev.exc = "none",
    values_unchanged |-> ev.post = Proj(S), idle_after |-> Idle(ev.stk) ]
RandModeEffect(W, S, ev) == [S EXCEPT !.rmode[ev.p] = ev.b]

CModeClauses(W, S, ev) ==
  [ known_block |-> CKey(ev.o, ev.b) \in DOMAIN S.cmode, no_exception |-> ev.exc = "none",
    values_unchanged |-> ev.post = Proj(S), idle_after |-> Idle(ev.stk) ]
CModeEffect(W, S, ev) == [S EXCEPT !.cmode[CKey(ev.o, ev.b)] = ev.en]

\* rangelist edits: the content is not readable through the API, so the event carries what was added
\* (as <<lo, hi>> pairs) and the specification tracks the content
RlNew(S, ev) == IF ev.op = "rl_clear" THEN << >> ELSE S.rl[ev.p] \o ev.added
RlClauses(W, S, ev) ==
  [ known_rl |-> ev.p \in DOMAIN S.rl, no_exception |-> ev.exc = "none",
    values_unchanged |-> ev.post = Proj(S), idle_after |-> Idle(ev.stk) ]
RlEffect(W, S, ev) == [S EXCEPT !.rl[ev.p] = RlNew(S, ev)]

\* list edits on scalar lists (C04): the facade afterwards is the previous exposed sequence edited
ListSeq(S, l) == [i \in 1..S.sz[l] |-> S.vals[ElemPath(l, i - 1)]]
WithList(W, S, l, seq) ==
  LET old == {ElemPath(l, i - 1) : i \in 1..S.sz[l]}
      new == {ElemPath(l, i - 1) : i \in 1..Len(seq)}
  IN [S EXCEPT !.vals = [p \in new |-> seq[CHOOSE i \in 1..Len(seq) : ElemPath(l, i - 1) = p]]
                          @@ Restrict(S.vals, DOMAIN S.vals \ old),
               !.sz[l] = Len(seq)]
ListNewSeq(W, S, ev) ==
  CASE ev.op = "l_append" -> Append(ListSeq(S, ev.p), ev.vs[1])
    [] ev.op = "l_extend" -> ListSeq(S, ev.p) \o ev.vs
    [] ev.op = "l_assign" -> ev.vs
    [] ev.op = "l_clear"  -> << >>
    [] ev.op = "l_setitem" -> [ListSeq(S, ev.p) EXCEPT ![ev.i + 1] = ev.vs[1]]
ListEffect(W, S, ev) == WithList(W, S, ev.p, ListNewSeq(W, S, ev))
ListClauses(W, S, ev) ==
  [ known_list |-> ev.p \in DOMAIN S.sz, no_exception |-> ev.exc = "none",
    within_cap |-> Len(ListNewSeq(W, S, ev)) <= W.lists[ev.p].cap,
    facade_is_edited_list |-> ev.exc = "none" => ev.post = Proj(ListEffect(W, S, ev)),
    facade_views_agree |-> ev.exc = "none" => /\ ev.views.index = ListNewSeq(W, S, ev) /\ ev.views.iter = ListNewSeq(W, S, ev)
                                              /\ ev.views.len = Len(ListNewSeq(W, S, ev)) /\ ev.views.size = ev.views.len,
    idle_after |-> Idle(ev.stk) ]

\* object lists: clear() followed by appending the same number of FRESH objects - every path below the list
\* starts over from its class initial state (values, rand_mode, constraint_mode)
UnderElems(x, l, I) == \E i \in I : LET pre == ElemPath(l, i) IN
                          x = pre \/ (Len(x) > Len(pre) /\ SubSeq(x, 1, Len(pre) + 1) = pre \o ".")
UnderList(x, l) == UnderElems(x, l, 0..8)
\* ol_refill replaces every element, ol_setitem (lst[i] = fresh object) the element at ev.i only
OlIdx(ev) == IF ev.op = "ol_setitem" THEN {ev.i} ELSE 0..8
OlRefillEffect(W, S, ev) ==
  LET l == ev.p
      sc == {x \in DOMAIN W.scalars : UnderElems(x, l, OlIdx(ev))}
      ob == {x \in DOMAIN W.objs : UnderElems(x, l, OlIdx(ev))}
      ck == UNION {{CKey(o, b) : b \in BlockNames(W, W.objs[o].cls)} : o \in ob}
      ls == {x \in DOMAIN W.lists : x # l /\ UnderElems(x, l, OlIdx(ev)) /\ ~W.lists[x].isobj}     \* scalar lists owned by the elements
      oldEl == UNION {{ElemPath(x, i - 1) : i \in 1..S.sz[x]} : x \in ls}
      newEl == UNION {{ElemPath(x, i - 1) : i \in 1..Len(W.lists[x].init)} : x \in ls}
      initOf(p) == LET x == CHOOSE y \in ls : \E i \in 1..Len(W.lists[y].init) : ElemPath(y, i - 1) = p
                       i == CHOOSE j \in 1..Len(W.lists[x].init) : ElemPath(x, j - 1) = p
                   IN W.lists[x].init[i]
  IN [S EXCEPT !.vals  = [x \in (DOMAIN S.vals \ oldEl) \cup newEl |->
                             IF x \in newEl THEN initOf(x) ELSE IF x \in sc THEN W.scalars[x].init ELSE S.vals[x]],
               !.sz    = [x \in DOMAIN S.sz |-> IF x \in ls THEN Len(W.lists[x].init) ELSE S.sz[x]],
               !.rmode = [x \in DOMAIN S.rmode |-> IF x \in sc \cup ob THEN TRUE ELSE S.rmode[x]],
               !.cmode = [k \in DOMAIN S.cmode |-> IF k \in ck THEN TRUE ELSE S.cmode[k]]]
OlRefillClauses(W, S, ev) ==
  [ known_list |-> ev.p \in DOMAIN S.sz /\ W.lists[ev.p].isobj, no_exception |-> ev.exc = "none",
    facade_is_fresh_objects |-> ev.exc = "none" => ev.post = Proj(OlRefillEffect(W, S, ev)),
    idle_after |-> Idle(ev.stk) ]

(* --- a randomize call (composite of BeginCall . Pre* . Solve . Post* . EndCall) *)
\* values as the solver sees them: the pre-state with the assignments made by pre_randomize callbacks
AfterPre(S, ev) == IF "mid" \in DOMAIN ev THEN ev.mid ELSE Proj(S)

\* a user exception injected by the scenario fired during this event (C16)
Fired(ev) == "fired" \in DOMAIN ev /\ ev.fired
FaultPh(ev) == IF Fired(ev) THEN ev.fault.ph ELSE "none"

CallClauses(W, S, ev) ==
  LET call  == ev.call
      roots == SeqSet(call.roots)
      mid   == AfterPre(S, ev)
      Sm    == [S EXCEPT !.vals = mid.v, !.sz = mid.sz]
      used  == UsedRand(W, Sm, roots)
      usz   == UsedSizes(W, Sm, roots)
      ok    == ev.exc = "none"
      pre_objs == {o \in UsedObjs(W, S, roots) : HasCb(W, o)}
      \* callbacks of elements a random-size object list hides after the call are not stated: required for the exposed ones
      must_objs == {o \in pre_objs : Exposed(W, ev.post.sz, o) /\ Exposed(W, mid.sz, o)}
  IN
  [ roots_alive        |-> \A r \in roots : (r \in DOMAIN W.objs => W.objs[r].top \in S.alive),
    pre_is_spec_state  |-> ev.pre = Proj(S),
    \* a raising with-body is an open zone for the outcome: the library still solves with the statements
    \* recorded so far before the user exception propagates, and that solve may fail first
    outcome_known      |-> IF Fired(ev) THEN (ev.exc = "Injected" \/ (FaultPh(ev) = "body" /\ ev.exc = "SolveFailure"))
                           ELSE ev.exc \in {"none", "SolveFailure"},                              \* C02, C16
    mid_only_by_callbacks |-> (CbSeq(ev, "pre") = << >>) => mid = Proj(S),
    nonrand_frozen     |-> /\ DOMAIN ev.post.v \ SzElems(W, usz)
                              = DOMAIN mid.v \ SzElems(W, usz)
                           /\ \A x \in DOMAIN mid.v : (x \notin used /\ x \in DOMAIN ev.post.v)
                                  => ev.post.v[x] = mid.v[x]                                       \* C03
                           /\ \A l \in DOMAIN mid.sz : l \notin usz => ev.post.sz[l] = mid.sz[l],
    in_type            |-> \A x \in DOMAIN ev.post.v : x \in used => InType(W, x, ev.post.v[x]),  \* C01
    ok_hard_hold       |-> ok => HardAll(W, Sm, call, ev.post.v, ev.post.sz) # "F",               \* C01
    ok_soft_maximal    |-> (ok /\ Small(W, Sm, call)) => SoftAccept(W, Sm, call, ev.post.v),       \* C05
    fail_iff_unsat     |-> /\ (ev.exc = "SolveFailure" /\ Small(W, Sm, call)) => ~DefSat(W, Sm, call, mid.v)     \* C02
                           /\ (ev.exc = "SolveFailure" /\ SmallSz(W, Sm, call) /\ FixedBits(W, Sm, call) <= 6)
                                 => ~DefSatSz(W, Sm, call, mid.v),                                \* C02/C04
    facade_consistent  |-> ok => \A l \in DOMAIN ev.post.sz :
                               {ElemPath(l, i - 1) : i \in 1..ev.post.sz[l]} \subseteq DOMAIN ev.post.v
                               \/ W.lists[l].isobj,                                                \* C04
    list_views_agree   |-> ok => \A l \in DOMAIN ev.views :                                       \* C04
                               LET seq == IF W.lists[l].isobj THEN [i \in 1..ev.post.sz[l] |-> i - 1]   \* the first sz objects, in order
                                          ELSE [i \in 1..ev.post.sz[l] |-> ev.post.v[ElemPath(l, i - 1)]] IN
                               /\ ev.views[l].len = ev.post.sz[l] /\ ev.views[l].size = ev.post.sz[l]
                               /\ ev.views[l].index = seq /\ ev.views[l].iter = seq,
    size_in_population |-> ok => \A l \in usz : W.lists[l].isobj => ev.post.sz[l] <= W.lists[l].n,       \* C04
    pre_once_each      |-> /\ NoDup(CbSeq(ev, "pre"))
                           /\ IF FaultPh(ev) \in {"pre", "body"}
                              THEN CbObjs(ev, "pre") \subseteq pre_objs
                              ELSE must_objs \subseteq CbObjs(ev, "pre") /\ CbObjs(ev, "pre") \subseteq pre_objs,   \* C17
    post_once_each     |-> /\ NoDup(CbSeq(ev, "post")) /\ CbObjs(ev, "post") \subseteq pre_objs
                           /\ ok => must_objs \subseteq CbObjs(ev, "post"),
    post_only_after_ok_solve |-> ((ev.exc = "SolveFailure" /\ FaultPh(ev) # "body") \/ FaultPh(ev) = "pre") => CbSeq(ev, "post") = << >>,
    pre_before_post    |-> \A i, j \in 1..Len(ev.cbs) : (ev.cbs[i].ph = "post" /\ ev.cbs[j].ph = "pre") => j < i,
    post_sees_final    |-> FaultPh(ev) = "none" => \A c \in SeqSet(CbSeq(ev, "post")) : c.seen = ev.post.v,
    post_sees_solution |-> FaultPh(ev) # "body" => \A c \in SeqSet(CbSeq(ev, "post")) :
                              HardAll(W, Sm, call, c.seen, ev.post.sz) # "F",
    idle_after         |-> Idle(ev.stk) ]                                                         \* C16
CallEffect(W, S, ev) == [S EXCEPT !.vals = ev.post.v, !.sz = ev.post.sz]

(* --- I1: pin probe (stuttering) ---------------------------------------- *)
\* ev.paths: pinned scalar paths; ev.rows[i] = <<n_1..n_k, out>>, n_j the unsigned value of path j,
\* out = 1 ok, 0 SolveFailure, 2 other exception.  The pins are extra inline equalities, so a row
\* is ok iff the hard constraints hold for the current state with the pinned values substituted
\* (all used-random scalars must be pinned: rows_pin_all_random).
\* a pinned value is logged as an unsigned number, or - for fields too wide for TLC integers (ev.wide) - as a bit vector
RowVal(ev, x, w) == IF "wide" \in DOMAIN ev /\ ev.wide THEN x ELSE NatBits(x, w)
ProbeClauses(W, S, ev) ==
  LET call  == ev.call
      roots == SeqSet(call.roots)
      used  == UsedRand(W, S, roots)
      k     == Len(ev.paths)
      envOf(r) == [x \in DOMAIN S.vals |->
                     IF \E j \in 1..k : ev.paths[j] = x
                     THEN RowVal(ev, r[CHOOSE j \in 1..k : ev.paths[j] = x], TypeOfPath(W, x).w)
                     ELSE S.vals[x]]
      \* a pinned non-random path can only be satisfied by its current value
      pinsOK(r) == \A j \in 1..k : ev.paths[j] \in used
                       \/ RowVal(ev, r[j], TypeOfPath(W, ev.paths[j]).w) = S.vals[ev.paths[j]]
      expect(r) == IF ~pinsOK(r) THEN "F" ELSE HardAll(W, S, call, envOf(r), S.sz)
  IN
  [ rows_pin_all_random |-> used \subseteq SeqSet(ev.paths),
    no_exception  |-> \A i \in 1..Len(ev.rows) : ev.rows[i][k + 1] \in {0, 1},                    \* C02
    table_equal   |-> \A i \in 1..Len(ev.rows) :
                        LET h == expect(ev.rows[i]) IN
                        h = "U" \/ (ev.rows[i][k + 1] = 1) = (h = "T"),
    state_restored |-> ev.post = Proj(S),
    idle_after    |-> Idle(ev.stk) ]

(* --- I2: exhaustive draw-path exploration of one call (stuttering) ------------------------ *)
\* ev.paths : the used-random scalar paths reported (all of them); ev.dist : sequence of
\*   [fail: BOOLEAN, o: sequence of unsigned values (one per path), p: <<num, den>>] with exact reduced probabilities;
\* ev.marg[j] : sequence of [v, p] - the exact marginal of path j; ev.complete : every draw sequence was executed;
\* ev.glob : draws taken from Python's global random module; ev.bounds : hook payload, path |-> sequence of
\*   <<lo, hi>> (the value ranges inferred for the call), ev.unbounded: paths without an inferred domain.
Pos(p) == p[1] > 0
EnvOfRow(W, S, ev, row) ==
  LET k == Len(ev.paths) IN
  [x \in DOMAIN S.vals |->
     IF \E j \in 1..k : ev.paths[j] = x
     THEN NatBits(row[CHOOSE j \in 1..k : ev.paths[j] = x], TypeOfPath(W, x).w)
     ELSE S.vals[x]]
\* signed / unsigned integer value of a small bit vector, for comparison with inferred bounds
IntOf(W, x, v) == IF TypeOfPath(W, x).s /\ Msb(v) = 1 THEN 0 - ToNat(Neg(v)) ELSE ToNat(v)
InRanges(n, rs) == \E i \in 1..Len(rs) : rs[i][1] <= n /\ n <= rs[i][2]
\* top-level dist statements of the enabled blocks of the call's root object whose target is a plain field
DistStmts(W, S, call) ==
  LET o == call.roots[1]
      blks == {b \in StaticBlockNames(W, W.objs[o].cls) : S.cmode[CKey(o, b)]}
  IN UNION {LET body == FindBlock(W, W.objs[o].cls, b).body IN
            {body[i] : i \in {j \in 1..Len(body) : body[j].k = "dist" /\ body[j].e.k = "f"}} : b \in blks}
\* a/b = c/d on reduced or unreduced pairs
FracEq(p, q) == p[1] * q[2] = q[1] * p[2]

ExploreClauses(W, S, ev) ==
  LET call  == ev.call
      roots == SeqSet(call.roots)
      used  == UsedRand(W, S, roots)
      k     == Len(ev.paths)
      sol   == Sol(W, S, call, S.vals)
      okrows == {ev.dist[i].o : i \in {j \in 1..Len(ev.dist) : ~ev.dist[j].fail /\ Pos(ev.dist[j].p)}}
      failmass == \E i \in 1..Len(ev.dist) : ev.dist[i].fail /\ Pos(ev.dist[i].p)
      feas(j) == {ToNat(e[ev.paths[j]]) : e \in sol}
      supp(j) == {ev.marg[j][i].v : i \in {n \in 1..Len(ev.marg[j]) : Pos(ev.marg[j][n].p)}}
      probOf(j, v) == LET I == {n \in 1..Len(ev.marg[j]) : ev.marg[j][n].v = v} IN
                      IF I = {} THEN <<0, 1>> ELSE ev.marg[j][CHOOSE n \in I : TRUE].p
      C(own) == Ctx(W, S, S.vals, S.sz, own)
  IN
  [ pins_all_random   |-> used = SeqSet(ev.paths),
    state_restored    |-> ev.post = Proj(S) /\ ev.pre = Proj(S),
    no_exception      |-> ev.other = 0,                                                            \* C02 / C20
    no_global_random  |-> ev.glob = 0,                                                             \* C09
    mass_is_one       |-> ev.complete => ev.mass[1] = ev.mass[2],
    support_in_sol    |-> \A r \in okrows : HardAll(W, S, call, EnvOfRow(W, S, ev, r), S.sz) # "F",   \* C01
    fail_iff_unsat    |-> (failmass => sol = {}) /\ ((ev.complete /\ sol # {}) => ~failmass),         \* C02 / C20 no corner
    support_is_feasible |-> ev.complete => \A j \in 1..k : supp(j) = feas(j),                        \* C14, C20
    bounds_cover_feasible |-> \A j \in 1..k :                                                        \* C14 (hook)
                               ev.paths[j] \in DOMAIN ev.bounds =>
                                 \A e \in sol : InRanges(IntOf(W, ev.paths[j], e[ev.paths[j]]), ev.bounds[ev.paths[j]]),
    dist_weights      |-> (ev.complete /\ ev.dist_free # << >>) =>                                  \* C15
                             \A st \in DistStmts(W, S, call) :
                               LET f == AbsP(call.roots[1], st.e.p) IN
                               f \in SeqSet(ev.dist_free) =>
                               LET j == CHOOSE n \in 1..k : ev.paths[n] = f
                                   wt(i) == ToNat(Eval(C(call.roots[1]), st.ws[i].w, 0))
                                   tot == LET RECURSIVE Sm(_) Sm(i) == IF i > Len(st.ws) THEN 0 ELSE wt(i) + Sm(i + 1) IN Sm(1)
                                   lo(i) == IF st.ws[i].it.k = "v" THEN ToNat(Eval(C(call.roots[1]), st.ws[i].it.e, 0))
                                            ELSE ToNat(Eval(C(call.roots[1]), st.ws[i].it.lo, 0))
                                   hi(i) == IF st.ws[i].it.k = "v" THEN lo(i) ELSE ToNat(Eval(C(call.roots[1]), st.ws[i].it.hi, 0))
                                   \* exact probability of value v: sum over the entries containing it of w/(tot*size)
                                   P == LET RECURSIVE Pr(_) Pr(i) == IF i > Len(st.ws) THEN 1 ELSE (hi(i) - lo(i) + 1) * Pr(i + 1) IN Pr(1)
                                   num(v) == LET RECURSIVE Sm(_)
                                                 Sm(i) == IF i > Len(st.ws) THEN 0
                                                          ELSE (IF lo(i) <= v /\ v <= hi(i) THEN wt(i) * (P \div (hi(i) - lo(i) + 1)) ELSE 0) + Sm(i + 1)
                                             IN Sm(1)
                               IN \A v \in 0..(2 ^ TypeOfPath(W, f).w - 1) : FracEq(probOf(j, v), <<num(v), tot * P>>),
    order_uniform     |-> (ev.complete /\ ev.uniform # << >>) =>                                     \* C20
                             \A j \in 1..k : ev.paths[j] \in SeqSet(ev.uniform) =>
                                LET F == feas(j) IN
                                (ev.paths[j] \in DOMAIN ev.bounds
                                 /\ {m \in (IF ev.paths[j] \in DOMAIN W.scalars /\ Len(W.scalars[ev.paths[j]].enum) > 0   \* an enum field ranges over its enumerators
                                            THEN {ToNat(W.scalars[ev.paths[j]].enum[i]) : i \in 1..Len(W.scalars[ev.paths[j]].enum)}
                                            ELSE 0..(2 ^ TypeOfPath(W, ev.paths[j]).w - 1)) :
                                        InRanges(IntOf(W, ev.paths[j], NatBits(m, TypeOfPath(W, ev.paths[j]).w)), ev.bounds[ev.paths[j]])} = F)
                                => \A v \in F : FracEq(probOf(j, v), <<1, Cardinality(F)>>),
    memo_equal        |-> (ev.complete /\ ev.memo_eq # "") =>                                        \* C20: program pairs
                             (ev.memo_eq \in DOMAIN S.memo /\ S.memo[ev.memo_eq] = ev.marg[1]),
    idle_after        |-> Idle(ev.stk) ]
ExploreEffect(W, S, ev) == IF ev.memo_put = "" THEN S ELSE [S EXCEPT !.memo = (ev.memo_put :> ev.marg[1]) @@ S.memo]

(* --- weighted selection helpers (C15): distselect / randselect observed for every seed ---------- *)
\* ev.weights : sequence of naturals, ev.results[s] : index (1-based) chosen when the generator returns seed s
SelectClauses(W, S, ev) ==
  LET tot == LET RECURSIVE Sm(_) Sm(i) == IF i > Len(ev.weights) THEN 0 ELSE ev.weights[i] + Sm(i + 1) IN Sm(1) IN
  [ draws_one_of_total  |-> ev.ndraws = 1 /\ ev.lo = 1 /\ ev.hi = tot,          \* one draw, uniform over 1..total
    every_seed_observed |-> Len(ev.results) = tot,
    no_exception        |-> ev.exc = "none",
    index_in_range      |-> \A s \in 1..Len(ev.results) : ev.results[s] \in 1..Len(ev.weights),
    weight_exact        |-> \A i \in 1..Len(ev.weights) :
                               Cardinality({s \in 1..Len(ev.results) : ev.results[s] = i}) = ev.weights[i],   \* w_i / total
    zero_weight_never   |-> \A s \in 1..Len(ev.results) : ev.weights[ev.results[s]] > 0,
    callback_is_choice  |-> ev.kind = "randselect" => ev.called = ev.results ]

(* ---------------- diagnostics attached to a FAIL verdict (explanatory only) ------------- *)
ProbeDiag(W, S, ev) ==
  LET call  == ev.call
      roots == SeqSet(call.roots)
      used  == UsedRand(W, S, roots)
      k     == Len(ev.paths)
      envOf(r) == [x \in DOMAIN S.vals |->
                     IF \E j \in 1..k : ev.paths[j] = x
                     THEN RowVal(ev, r[CHOOSE j \in 1..k : ev.paths[j] = x], TypeOfPath(W, x).w)
                     ELSE S.vals[x]]
      pinsOK(r) == \A j \in 1..k : ev.paths[j] \in used
                       \/ RowVal(ev, r[j], TypeOfPath(W, ev.paths[j]).w) = S.vals[ev.paths[j]]
      expect(r) == IF ~pinsOK(r) THEN "F" ELSE HardAll(W, S, call, envOf(r), S.sz)
      bad == {i \in 1..Len(ev.rows) : LET h == expect(ev.rows[i]) IN
                  ~(h = "U" \/ (ev.rows[i][k + 1] = 1) = (h = "T"))}
      few == {i \in bad : Cardinality({j \in bad : j < i}) < 4}
  IN [n_bad |-> Cardinality(bad), rows |-> {<<ev.rows[i], expect(ev.rows[i])>> : i \in few}, used |-> used]
CallDiag(W, S, ev) ==
  LET roots == SeqSet(ev.call.roots)
      mid   == AfterPre(S, ev)
      Sm    == [S EXCEPT !.vals = mid.v, !.sz = mid.sz]
      used  == UsedRand(W, Sm, roots)
  IN [used |-> used,
      changed_nonrand |-> {x \in DOMAIN mid.v : x \notin used /\ x \in DOMAIN ev.post.v /\ ev.post.v[x] # mid.v[x]},
      hard |-> IF ev.exc = "none" /\ DOMAIN ev.post.v = DOMAIN mid.v THEN HardAll(W, Sm, ev.call, ev.post.v, ev.post.sz) ELSE "-",
      pre_differs |-> {x \in DOMAIN S.vals : x \notin DOMAIN ev.pre.v \/ ev.pre.v[x] # S.vals[x]}]
Diag(W, S, ev) ==
  CASE ev.op = "probe" -> ProbeDiag(W, S, ev)
    [] ev.op = "call"  -> CallDiag(W, S, ev)
    [] OTHER -> [none |-> TRUE]

(* ------------------------------ dispatch ------------------------------- *)
\* a field whose read raises (e.g. an enum field holding a non-enumerator) makes the projection unreadable
Unreadable(ev, k) == k \in DOMAIN ev /\ "__error__" \in DOMAIN ev[k].v
Clauses(W, S, ev) ==
  IF Unreadable(ev, "post") \/ Unreadable(ev, "pre") THEN [ every_field_readable_in_type |-> FALSE ] ELSE
  CASE ev.op = "construct" -> ConstructClauses(W, S, ev)
    [] ev.op = "set"       -> SetClauses(W, S, ev)
    [] ev.op = "rand_mode" -> RandModeClauses(W, S, ev)
    [] ev.op = "cmode"     -> CModeClauses(W, S, ev)
    [] ev.op \in {"rl_clear", "rl_extend", "rl_append"} -> RlClauses(W, S, ev)
    [] ev.op \in {"l_append", "l_extend", "l_assign", "l_clear", "l_setitem"} -> ListClauses(W, S, ev)
    [] ev.op \in {"ol_refill", "ol_setitem"} -> OlRefillClauses(W, S, ev)
    [] ev.op = "call"      -> CallClauses(W, S, ev)
    [] ev.op = "probe"     -> ProbeClauses(W, S, ev)
    [] ev.op = "explore"   -> ExploreClauses(W, S, ev)
    [] ev.op = "select"    -> SelectClauses(W, S, ev)
    [] OTHER -> [ known_event |-> FALSE ]
Effect(W, S, ev) ==
  CASE ev.op = "construct" -> IF ev.exc = "none" THEN ConstructEffect(W, S, ev) ELSE S
    [] ev.op = "set"       -> SetEffect(W, S, ev)
    [] ev.op = "rand_mode" -> RandModeEffect(W, S, ev)
    [] ev.op = "cmode"     -> CModeEffect(W, S, ev)
    [] ev.op \in {"rl_clear", "rl_extend", "rl_append"} -> RlEffect(W, S, ev)
    [] ev.op \in {"l_append", "l_extend", "l_assign", "l_clear", "l_setitem"} -> ListEffect(W, S, ev)
    [] ev.op \in {"ol_refill", "ol_setitem"} -> OlRefillEffect(W, S, ev)
    [] ev.op = "call"      -> CallEffect(W, S, ev)
    [] ev.op = "probe"     -> S
    [] ev.op = "explore"   -> ExploreEffect(W, S, ev)
    [] ev.op = "select"    -> S
=============================================================================
