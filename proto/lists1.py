import sys, io, contextlib, itertools, collections
sys.path.insert(0,'/verif/proto'); import btorshim
import vsc
from vsc.model.solve_failure import SolveFailure
def q(f):
    with contextlib.redirect_stdout(io.StringIO()): return f()
# 1. sum over fixed list of 2-bit elems compared with literal / field; exhaustive pins
@vsc.randobj
class L1:
    def __init__(self):
        self.l = vsc.rand_list_t(vsc.bit_t(2), 3)
        self.s = vsc.rand_bit_t(2)
    @vsc.constraint
    def c(self):
        self.l.sum == self.s
o=L1(); mism=0
for vals in itertools.product(range(4),repeat=4):
    try:
        def go():
            with o.randomize_with() as it:
                for i in range(3): it.l[i]==vals[i]
                it.s==vals[3]
        q(go); r=True
    except SolveFailure: r=False
    except Exception as e: r='exc:'+type(e).__name__
    exp = (sum(vals[:3])==vals[3])   # math sum vs 2-bit field (no wrap)
    expwrap = ((sum(vals[:3])&3)==vals[3])
    if r!=exp: mism+=1
print("sum==s(2bit): mismatches vs math-sum", mism)
# 2. signed list sum
@vsc.randobj
class L2:
    def __init__(self):
        self.l = vsc.rand_list_t(vsc.int_t(3), 2)
    @vsc.constraint
    def c(self):
        self.l.sum < 0
o=L2(); mism=0; ex=None
def sx(v,w): return v-(1<<w) if v>>(w-1) else v
for vals in itertools.product(range(8),repeat=2):
    try:
        def go():
            with o.randomize_with() as it:
                for i in range(2): it.l[i]==sx(vals[i],3)
        q(go); r=True
    except SolveFailure: r=False
    except Exception as e: r='exc:'+type(e).__name__
    exp = (sx(vals[0],3)+sx(vals[1],3))<0
    if r!=exp: mism+=1; ex=(vals,r,exp)
print("signed sum<0: mismatches", mism, ex)
# 3. randsz list
@vsc.randobj
class L3:
    def __init__(self):
        self.l = vsc.randsz_list_t(vsc.bit_t(2))
    @vsc.constraint
    def c(self):
        self.l.size in vsc.rangelist((1,3))
        with vsc.foreach(self.l, idx=True) as i:
            self.l[i] == i
o=L3(); seen=collections.Counter()
for k in range(60):
    q(o.randomize); seen[(len(o.l), o.l.size, tuple(o.l), len(o.get_model().l.field_l) if hasattr(o.get_model(),'l') else len(o.l._int_field_info.model.field_l))]+=1
print("randsz:", dict(seen))
o.l.append(3); print("after append:", list(o.l), len(o.l))
# 4. sum tied to size on randsz
@vsc.randobj
class L4:
    def __init__(self):
        self.l = vsc.randsz_list_t(vsc.bit_t(3))
    @vsc.constraint
    def c(self):
        self.l.size in vsc.rangelist((1,3))
        self.l.sum == 6
        with vsc.foreach(self.l) as it:
            it > 0
o=L4(); bad=0; seen=collections.Counter()
for k in range(60):
    try: q(o.randomize)
    except Exception as e: seen["exc:"+type(e).__name__]+=1; continue
    s=sum(o.l); seen[(len(o.l), s)]+=1
print("randsz sum==6:", dict(seen))
