CONSTANT MaxLevel = 12
SPECIFICATION Spec
CONSTRAINT EmitAtDepth
CHECK_DEADLOCK FALSE
