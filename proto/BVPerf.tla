------------------------------- MODULE BVPerf -------------------------------
EXTENDS BV, TLC, Integers
CONSTANT W, N
VARIABLE done
\* pseudo-random vectors
V(k) == [i \in 1..W |-> ((k * 7919 + i * 104729 + k*i*31) \div 3) % 2]
CheckAdd == \A k \in 1..N : Add(V(k), V(k+1)) = Add(V(k+1), V(k))
CheckMul == \A k \in 1..N : Mul(V(k), V(k+1)) = Mul(V(k+1), V(k))
CheckDiv == \A k \in 1..N : LET a == V(k) b == V(k+1) IN
               IsZero(b) \/ Add(Mul(Udiv(a,b), b), Urem(a,b)) = a
CheckCmp == \A k \in 1..N : Ult(V(k), V(k+1)) \/ Ule(V(k+1), V(k))
Init == done = 0
Next == \/ done = 0 /\ Assert(CheckAdd, "add") /\ PrintT(<<"add", JavaTime>>) /\ done' = 1
        \/ done = 1 /\ Assert(CheckCmp, "cmp") /\ PrintT(<<"cmp", JavaTime>>) /\ done' = 2
        \/ done = 2 /\ Assert(CheckMul, "mul") /\ PrintT(<<"mul", JavaTime>>) /\ done' = 3
        \/ done = 3 /\ Assert(CheckDiv, "div") /\ PrintT(<<"div", JavaTime>>) /\ done' = 4
=============================================================================
