"""Scenario families for functional coverage (C10-C13, C19)."""
import itertools
import random


def disjoint_ranges(rnd, lo, hi, k, adjacent_ok=True):
    """k pairwise disjoint closed ranges inside lo..hi, returned in random (unordered) order"""
    pts = sorted(rnd.sample(range(lo, hi + 1), min(2 * k, hi - lo + 1)))
    out = []
    i = 0
    while i + 1 < len(pts) and len(out) < k:
        a, b = pts[i], pts[i + 1]
        if rnd.random() < 0.4:
            b = a
            i += 1
        else:
            i += 2
        out.append([a, b])
    if not out:
        out = [[pts[0], pts[0]]]
    rnd.shuffle(out)
    return out


def carve(rnd, lo, hi, ndecl, maxr=2):
    """ndecl lists of ranges, all ranges pairwise disjoint across the declarations"""
    rs = disjoint_ranges(rnd, lo, hi, ndecl * maxr)
    rnd.shuffle(rs)
    out = [[] for _ in range(ndecl)]
    for i, r in enumerate(rs):
        out[i % ndecl].append(r)
    return [o for o in out if o]


def all_vals_seq(var, lo, hi, other=None):
    return [dict({var: v}, **(other or {})) for v in range(lo, hi + 1)]


# ------------------------------------------------------------------------------------------ C10
def cp_shape(rnd, w, signed=False, allow_overlap=False):
    lo, hi = (-(1 << (w - 1)), (1 << (w - 1)) - 1) if signed else (0, (1 << w) - 1)
    kind = rnd.choice(["bin", "array", "arrayn", "mixed", "auto", "auto"])
    cp = {"name": "cp", "var": "a"}
    nign = rnd.choice([0, 0, 1, 2])
    parts = carve(rnd, lo, hi, 3 + nign)
    excl = parts[3:3 + nign] if len(parts) > 3 else []
    if kind == "auto":
        cp["abm"] = rnd.choice([1, 2, 3, 4, 5, 7, 64])
    else:
        bins = []
        decls = parts[:3][:rnd.randint(1, 3)]
        for i, rs in enumerate(decls):
            k = {"bin": "bin", "array": "array", "arrayn": "array", "mixed": rnd.choice(["bin", "array"])}[kind]
            b = {"name": "b%d" % i, "kind": k, "ranges": rs}
            if k == "array":
                b["n"] = rnd.randint(1, 5) if (kind == "arrayn" or rnd.random() < 0.5) else 0
            bins.append(b)
        cp["bins"] = bins
        # ignore/illegal may also cut into the declared ranges: at the low end, the high end, the interior, or across an end
        if rnd.random() < 0.7:
            r = rnd.choice(rnd.choice(decls))
            # ("all" only when another declaration keeps the coverpoint non-empty: a coverpoint without bins is an open zone)
            cut = rnd.choice(["lo", "hi", "mid", "over_hi", "under_lo"] + (["all"] if len(decls) >= 2 else []))
            if r[0] == r[1] and len(decls) < 2:
                cut = "none"
            c = {"lo": [r[0], r[0]], "hi": [r[1], r[1]], "mid": [(r[0] + r[1]) // 2, (r[0] + r[1] + 1) // 2],
                 "over_hi": [r[1], min(hi, r[1] + 2)], "under_lo": [max(lo, r[0] - 2), r[0]], "all": [r[0], r[1]],
                 "none": None}[cut]
            if c is not None and not (len(decls) < 2 and c[0] <= r[0] and c[1] >= r[1]):
                excl = excl + [[c]]
    if kind == "auto" and rnd.random() < 0.6:
        c = rnd.choice([[hi, hi], [lo, lo], [hi - 1, hi], [(lo + hi) // 2, (lo + hi) // 2]])
        excl = excl + [[c]]
    if kind != "auto":
        pass
    # a coverpoint left without any bin is an open zone (coverage of nothing): keep at least one value of every
    # declaration's neighbourhood by dropping exclusions that would empty the coverpoint
    def remaining(ex):
        gone = set()
        for rs in ex:
            for r in rs:
                gone.update(range(r[0], r[1] + 1))
        if "bins" in cp:
            vals = set()
            for b in cp["bins"]:
                for r in b["ranges"]:
                    vals.update(range(r[0], r[1] + 1))
        else:
            vals = set(range(lo, hi + 1))
        return vals - gone
    while excl and not remaining(excl):
        excl = excl[:-1]
    if excl:
        half = rnd.choice([len(excl) // 2, len(excl), 0])          # also: every exclusion an illegal bin of its own
        ign = [{"name": "ig%d" % i, "ranges": rs} for i, rs in enumerate(excl[:half])]
        ill = [{"name": "il%d" % i, "ranges": rs} for i, rs in enumerate(excl[half:])]
        if ign:
            cp["ign"] = ign
        if ill:
            cp["ill"] = ill
    return cp, lo, hi


def bind_variants(scs):
    """the two other ways of providing sampling data (coverage.rst): every third scenario is repeated with callables bound
    at instantiation (lambda) and every third with an object handed to the constructor by reference; sample() then takes
    no arguments.  The counters must not depend on how the data arrives."""
    import copy
    out = list(scs)
    for i, sc in enumerate(scs):
        if i % 3 == 0 or any(sh.get("objsample") for sh in sc["shapes"].values()):
            continue
        b = "lambda" if i % 3 == 1 else "ref"
        c = copy.deepcopy(sc)
        c["id"] += "/" + b
        for sh in c["shapes"].values():
            sh["bind"] = b
        out.append(c)
    return out


def family_bins(tier, seed, n=None):
    return bind_variants(family_bins0(tier, seed, n))


def family_cross(tier, seed, n=None):
    return bind_variants(family_cross0(tier, seed, n))


def family_types(tier, seed, n=None, reports=False, options=True):
    return bind_variants(family_types0(tier, seed, n, reports, options))


def family_bins0(tier, seed, n=None):
    out = []
    n = n or (60 if tier == "quick" else 1200)
    for t in range(n):
        rnd = random.Random((777 if t < n // 2 else 1000 + seed) * 100003 + t)
        w = rnd.choice([2, 3, 4, 4] if tier == "quick" else [2, 3, 4, 5, 6, 8])
        signed = rnd.random() < 0.2
        cp, lo, hi = cp_shape(rnd, w, signed)
        vars_ = {"a": {"w": w, "signed": signed}}
        useiff = rnd.random() < 0.4
        if useiff:
            vars_["g"] = {"w": 1}
            cp["iff"] = "g"
        shape = {"cls": "CG", "vars": vars_, "cps": [cp]}
        other = {"g": 1} if useiff else {}
        ops = [{"op": "new", "shape": "S"}]
        vals = list(range(lo, hi + 1))
        if w <= 4:
            for v in vals:
                ops.append({"op": "sample", "inst": 1, "vals": dict({"a": v}, **other)})
        else:
            ops.append({"op": "sweep", "inst": 1, "seq": [dict({"a": v}, **other) for v in vals]})
        for _ in range(6):                      # repeats and gated-off samples
            d = {"a": rnd.choice(vals)}
            if useiff:
                d["g"] = rnd.choice([0, 1])
            ops.append({"op": "sample", "inst": 1, "vals": d})
        # the same value three times in a row: every sample counts, whatever preceded it
        d = dict({"a": vals[(t * 7) % len(vals)]}, **other)
        ops += [{"op": "sample", "inst": 1, "vals": dict(d)} for _ in range(3)]
        out.append({"id": "bins/%s/%d" % ("core" if t < n // 2 else "s%d" % seed, t), "shapes": {"S": shape}, "ops": ops})
    # (a) ONE bins specification object shared by two coverpoints of a covergroup and by every instance of the class
    # (b) a covergroup that samples OBJECTS: different objects are handed over in turn
    for t in range(6 if tier == "quick" else 60):
        rnd = random.Random(7800 + t + (0 if t < 3 else 1000 * seed))
        w = rnd.choice([3, 4])
        cp, lo, hi = cp_shape(rnd, w, False)
        if not cp.get("bins") or t % 3 == 0:
            cp["bins"] = [{"name": "ba", "kind": "array", "n": rnd.choice([2, 3, 4]), "ranges": [[0, (1 << w) - 1]]},
                          {"name": "bb", "kind": "bin", "ranges": [[1, 2]]}]
            cp.pop("abm", None)
        cp2 = dict(cp, name="cq", bins_of=cp["name"])
        vars_ = {"a": {"w": w}}
        shape = {"cls": "CGS", "vars": vars_, "cps": [cp, cp2], "share_bins": True}
        if t % 2 == 1:
            shape["objsample"] = 2 + t % 3
        vals = list(range(0, 1 << w))
        ops = [{"op": "new", "shape": "S"}, {"op": "sweep", "inst": 1, "seq": [{"a": v} for v in vals]}, {"op": "new", "shape": "S"}]
        for k_ in range(8):
            ops.append({"op": "sample", "inst": 1 + k_ % 2, "vals": {"a": rnd.choice(vals)}})
        ops.append({"op": "sweep", "inst": 2, "seq": [{"a": v} for v in vals]})
        out.append({"id": "bins/shared/%s/%d" % ("obj" if t % 2 == 1 else "val", t), "shapes": {"S": shape}, "ops": ops})
    # enum coverpoints
    for t, enums in enumerate([[0, 1, 2], [5, -1, 7, 3], [1, 2, 4, 8]]):
        cp = {"name": "cp", "var": "e"}
        if t == 1:
            cp["ign"] = [{"name": "ig", "ranges": [[7, 7]]}]
        shape = {"cls": "CGE", "vars": {"e": {"w": 32, "signed": True, "enum": enums}}, "cps": [cp]}
        ops = [{"op": "new", "shape": "S"}] + [{"op": "sample", "inst": 1, "vals": {"e": v}} for v in enums + enums[:2]]
        out.append({"id": "bins/enum/%d" % t, "shapes": {"S": shape}, "ops": ops})
    return out


# ------------------------------------------------------------------------------------------ C11
def family_cross0(tier, seed, n=None):
    out = []
    n = n or (40 if tier == "quick" else 600)
    for t in range(n):
        rnd = random.Random((4242 if t < n // 2 else 5000 + seed) * 100003 + t)
        ncp = rnd.choice([2, 2, 3])
        vars_, cps = {}, []
        for i in range(ncp):
            w = rnd.choice([1, 2, 2, 3]) if ncp == 2 else rnd.choice([1, 2])
            vn = "v%d" % i
            vars_[vn] = {"w": w}
            lo, hi = 0, (1 << w) - 1
            cp = {"name": "cp%d" % i, "var": vn}
            kind = rnd.choice(["auto", "bins", "bins", "wild"])
            if kind == "wild":
                # wildcard bins in a crossed coverpoint: their hit markers feed the cross
                m1 = rnd.randrange(1, 1 << w)
                v1 = rnd.randrange(1 << w) & m1
                cp["bins"] = [{"name": "w0", "kind": "wild", "pats": [[v1, m1]]},
                              {"name": "w1", "kind": "wild", "pats": [[(v1 ^ m1) & m1, m1]]}]
            elif kind == "auto":
                cp["abm"] = rnd.choice([2, 64])
            else:
                parts = carve(rnd, lo, hi, 2)
                cp["bins"] = [{"name": "b%d" % j, "kind": rnd.choice(["bin", "array"]), "n": rnd.choice([0, 0, 2]), "ranges": rs}
                              for j, rs in enumerate(parts)]
                if rnd.random() < 0.3 and hi > 1:
                    cp["ign"] = [{"name": "ig", "ranges": [[hi, hi]]}]
            if rnd.random() < 0.35:
                vars_.setdefault("g%d" % i, {"w": 1})
                cp["iff"] = "g%d" % i
            cps.append(cp)
        x = {"name": "x", "cps": [c["name"] for c in cps]}
        if rnd.random() < 0.4:
            vars_.setdefault("gx", {"w": 1})
            x["iff"] = "gx"
        shape = {"cls": "CGX", "vars": vars_, "cps": cps, "xs": [x]}
        if t % 5 == 4:
            shape["objsample"] = 2 + t % 2        # the covergroup samples objects handed over in turn
        gates = [v for v in vars_ if v.startswith("g")]
        doms = [range(1 << vars_[v]["w"]) for v in vars_ if not v.startswith("g")]
        names = [v for v in vars_ if not v.startswith("g")]
        ops = [{"op": "new", "shape": "S"}]
        combos = list(itertools.product(*doms))
        for c in combos:
            d = dict(zip(names, c))
            for g in gates:
                d[g] = 1
            ops.append({"op": "sample", "inst": 1, "vals": d})
        for _ in range(10):
            d = dict(zip(names, rnd.choice(combos)))
            for g in gates:
                d[g] = rnd.choice([0, 1, 1])
            ops.append({"op": "sample", "inst": 1, "vals": d})
        d = dict(zip(names, combos[(t * 5) % len(combos)]))
        for g in gates:
            d[g] = 1
        ops += [{"op": "sample", "inst": 1, "vals": dict(d)} for _ in range(3)]          # the same combination three times in a row
        out.append({"id": "cross/%s/%d" % ("core" if t < n // 2 else "s%d" % seed, t), "shapes": {"S": shape}, "ops": ops})
    return out


# ------------------------------------------------------------------------------------------ C12 / C13
def small_shape(rnd, cls, variant, atl=None, wts=None):
    """one of a few parameterised variants of a class: variant changes the bin set"""
    b0 = [[0, 1]] if variant % 2 == 0 else [[0, 2]]
    # (variants 4/5: the same-named, same-sized array shifted to other values)
    hi_r = [[4, 7]] if variant < 4 else ([[4, 5]] if variant == 4 else [[6, 7]])        # 4: [4,5]; 5 and 6: [6,7]
    cps = [{"name": "ca", "var": "a", "bins": [{"name": "lo", "kind": "bin", "ranges": b0},
                                               {"name": "hi", "kind": "array", "n": 0 if variant in (0, 1, 4, 5, 6) else 2, "ranges": hi_r}]},
           {"name": "cb", "var": "b", "abm": 64}]
    if variant == 3:
        cps[0]["ign"] = [{"name": "ig", "ranges": [[3, 3]]}]
    xs = [{"name": "x", "cps": ["ca", "cb"]}] if rnd.random() < 0.6 else []
    sh = {"cls": cls, "vars": {"a": {"w": 3}, "b": {"w": 1}}, "cps": cps, "xs": xs}
    if atl:
        cps[0]["atl"] = atl[0]
        cps[1]["atl"] = atl[1]
        for x in xs:
            x["atl"] = atl[0]
    if wts:
        cps[0]["wt"] = wts[0]
        cps[1]["wt"] = wts[1]
        for x in xs:
            x["wt"] = wts[2]
    return sh


def family_types0(tier, seed, n=None, reports=False, options=True):
    out = []
    # two instances of ONE class whose parameter shifts a same-named, same-sized bin array: separate types
    rnd0 = random.Random(12)
    for k_, (va, vb) in enumerate([(4, 6), (6, 4), (0, 1), (0, 4)]):
        shapes = {"S0": small_shape(random.Random(12 + k_), "CGA", va), "S1": small_shape(random.Random(12 + k_), "CGA", vb)}
        ops = [{"op": "new", "shape": "S0"}, {"op": "new", "shape": "S1"}, {"op": "new", "shape": "S0"}]
        for v in (0, 4, 5, 6, 7, 2):
            for i_ in (1, 2, 3):
                ops.append({"op": "sample", "inst": i_, "vals": {"a": v, "b": v % 2}})
        if reports:
            ops.append({"op": "report"})
        out.append({"id": "%s/shifted/%d" % ("rpt" if reports else "types", k_), "shapes": shapes, "ops": ops})
    # the parameter changes the bins of a coverpoint that takes part in NO cross (the crosses of the two shapes are alike): still
    # separate types, in either creation order
    for k_, (va, vb) in enumerate([(0, 1), (1, 0), (4, 5)]):
        def sh3(variant):
            sh = small_shape(random.Random(5), "CGU", variant)
            sh["vars"]["c"] = {"w": 1}
            sh["cps"].append({"name": "cc", "var": "c", "abm": 64})
            sh["xs"] = [{"name": "x", "cps": ["cb", "cc"]}]
            return sh
        shapes = {"S0": sh3(va), "S1": sh3(vb)}
        ops = [{"op": "new", "shape": "S0"}, {"op": "new", "shape": "S1"}]
        for v in (0, 1, 2, 4, 5, 6, 7):
            for i_ in (1, 2):
                ops.append({"op": "sample", "inst": i_, "vals": {"a": v, "b": v % 2, "c": (v // 2) % 2}})
        ops.append({"op": "new", "shape": "S1"})
        ops.append({"op": "sample", "inst": 3, "vals": {"a": 2, "b": 1, "c": 1}})
        if reports:
            ops.append({"op": "report"})
        out.append({"id": "%s/uncrossed/%d" % ("rpt" if reports else "types", k_), "shapes": shapes, "ops": ops})
    n = n or (40 if tier == "quick" else 500)
    for t in range(n):
        rnd = random.Random((991 if t < n // 2 else 3000 + seed) * 100003 + t + (7 if reports else 0))
        nshape = rnd.choice([1, 2, 2, 3])
        shapes = {}
        for i in range(nshape):
            cls = rnd.choice(["CGA", "CGA", "CGB"])
            atl = wts = None
            if options and rnd.random() < 0.5:
                atl = (rnd.choice([1, 2, 3]), rnd.choice([1, 2]))
            if options and rnd.random() < 0.5:
                # PyUCIS' report builder ignores cross weights, so report families keep them at 1
                wts = (rnd.choice([1, 2, 5]), rnd.choice([0, 1, 2]), 1 if reports else rnd.choice([1, 2]))
            shapes["S%d" % i] = small_shape(rnd, cls, rnd.choice([0, 1, 2, 3, 4, 5, 6, 4, 6]), atl, wts)
        ops = []
        ninst = 0
        order = []
        for sn in shapes:
            order += [sn] * rnd.randint(1, 3)
        rnd.shuffle(order)
        pending = list(order)
        # interleave creations and samples
        while pending or rnd.random() < 0.9 and len(ops) < (14 if tier == "quick" else 24):
            if pending and (ninst == 0 or rnd.random() < 0.3):
                ops.append({"op": "new", "shape": pending.pop()})
                ninst += 1
            elif reports and rnd.random() < 0.2:
                ops.append({"op": "report"})
            else:
                ops.append({"op": "sample", "inst": rnd.randint(1, ninst), "vals": {"a": rnd.randrange(8), "b": rnd.randrange(2)}})
            if len(ops) > 40:
                break
        if reports:
            ops.append({"op": "report"})
        out.append({"id": "%s/%s/%d" % ("rpt" if reports else "types", "core" if t < n // 2 else "s%d" % seed, t),
                    "shapes": shapes, "ops": ops})
    return out


def dup_names_risk(shape):
    """a one-bin-per-value collection made of several contiguous pieces names multi-value pieces by global index and
    single values by local index: two bins of one coverpoint can get the same name (known finding C13-duplicate-bin-names)"""
    def vals_of(ranges):
        v = set()
        for r in ranges:
            v.update(range(r[0], r[1] + 1))
        return v

    def runs(vs):
        vs = sorted(vs)
        return sum(1 for i, x in enumerate(vs) if i == 0 or x != vs[i - 1] + 1)

    def pieces(ranges, ex):
        """number of ranges the library ends up with: overlapping ranges are merged (adjacent ones are not), then every
        range is split by the excluded values"""
        rs = sorted([list(r) for r in ranges])
        merged = []
        for r in rs:
            if merged and r[0] <= merged[-1][1]:
                merged[-1][1] = max(merged[-1][1], r[1])
            else:
                merged.append(r)
        return sum(runs(set(range(r[0], r[1] + 1)) - ex) for r in merged)
    for cp in shape["cps"]:
        ex = set()
        for b in cp.get("ign", []) + cp.get("ill", []):
            ex |= vals_of(b["ranges"])
        if not cp.get("bins"):
            vd = shape["vars"][cp["var"]]
            if vd.get("enum"):
                continue
            w, sg = vd["w"], vd.get("signed", False)
            lo, hi = (-(1 << (w - 1)), (1 << (w - 1)) - 1) if sg else (0, (1 << w) - 1)
            vs = set(range(lo, hi + 1)) - ex
            if cp.get("abm", 64) >= len(vs) and runs(vs) >= 2:
                return True
            continue
        for b in cp["bins"]:
            if b["kind"] == "array":
                vs = vals_of(b["ranges"]) - ex
                n = b.get("n", 0)
                if (n == 0 or n >= len(vs)) and pieces(b["ranges"], ex) >= 2:
                    return True
    return False


def family_report_kinds(tier, seed):
    """reports over the bin kinds of the C10/C11/C19 families (names of array elements, ignore/illegal, crosses)"""
    out = []
    srcs = family_bins(tier, seed, n=20 if tier == "quick" else 200) + family_cross(tier, seed, n=10 if tier == "quick" else 100)
    for scn in srcs:
        if dup_names_risk(scn["shapes"]["S"]):
            continue              # quarantine of known finding C13-duplicate-bin-names (witness below)
        rnd = random.Random(sum(map(ord, scn["id"])))
        ops = []
        for i, op in enumerate(scn["ops"][:14]):
            ops.append(op)
            if rnd.random() < 0.15:
                ops.append({"op": "report"})
        ops.append({"op": "new", "shape": "S"})
        ops.append({"op": "report"})
        out.append({"id": "rptk/" + scn["id"], "shapes": scn["shapes"], "ops": ops})
    shape = {"cls": "CGD", "vars": {"a": {"w": 4}},
             "cps": [{"name": "cp", "var": "a", "bins": [{"name": "b0", "kind": "array", "n": 0, "ranges": [[0, 1]]},
                                                          {"name": "b1", "kind": "array", "n": 0, "ranges": [[4, 5], [8, 8]]}]}]}
    out.append({"id": "rptk/witness/dupnames", "shapes": {"S": shape},
                "ops": [{"op": "new", "shape": "S"}] + [{"op": "sample", "inst": 1, "vals": {"a": v}} for v in (0, 4, 5, 8)]
                       + [{"op": "report"}]})
    return out


# ------------------------------------------------------------------------------------------ C19
def pat_str(rnd, value, mask, nbits, base):
    """render (value, mask) over nbits as a wildcard string in the given base (mask must be digit aligned)"""
    per = {2: 1, 8: 3, 16: 4}[base]
    nd = (nbits + per - 1) // per
    digs = []
    for d in range(nd - 1, -1, -1):
        m = (mask >> (d * per)) & ((1 << per) - 1)
        v = (value >> (d * per)) & ((1 << per) - 1)
        if m == 0:
            digs.append(rnd.choice("xX?"))
        elif m == (1 << per) - 1:
            digs.append("0123456789abcdef"[v])
        else:
            return None
        if rnd.random() < 0.2 and d > 0:
            digs.append("_")
    return {2: "0b", 8: "0o", 16: "0x"}[base] + "".join(digs)


def family_wild(tier, seed):
    out = []
    W = 4 if tier == "quick" else 6
    pairs = [(v, m) for m in range(1 << W) for v in range(1 << W) if v & ~m == 0]
    rnd = random.Random(1919)
    # exhaustive single-pattern bins, 6 per covergroup, each shape swept with every value
    per = 6
    for c in range(0, len(pairs), per):
        chunk = pairs[c:c + per]
        cps = []
        for i, (v, m) in enumerate(chunk):
            cps.append({"name": "w%d" % i, "var": "a", "bins": [{"name": "wb", "kind": "wild", "pats": [[v, m]]}]})
            if (m >> (W - 1)) & 1:      # quarantine of known finding C19-wildarray-high-wildcard (see known_findings.json)
                cps.append({"name": "wa%d" % i, "var": "a", "bins": [{"name": "wab", "kind": "wildarray", "n": (c + i) % 4, "pats": [[v, m]]}]})
        shape = {"cls": "CGW", "vars": {"a": {"w": W}}, "cps": cps}
        seq = [{"a": v} for v in range(1 << W)]
        # (the second half samples every value twice in a row: a repeat is a hit like any other sample)
        ops = [{"op": "new", "shape": "S"}, {"op": "sweep", "inst": 1, "seq": seq[:len(seq) // 2]},
               {"op": "sweep", "inst": 1, "seq": [x for v_ in seq[len(seq) // 2:] for x in (v_, v_)]}]
        out.append({"id": "wild/pair/%d" % c, "shapes": {"S": shape}, "ops": ops})
    # (value, mask) pairs whose value carries bits OUTSIDE the mask: those bits are wildcards and do not matter
    rndo = random.Random(1921 + seed)
    allp = [(v, m) for m in range(1 << W) for v in range(1 << W) if v & ~m]
    pick = allp if tier != "quick" else rndo.sample(allp, 36)
    for c in range(0, len(pick), per):
        cps = []
        for i, (v, m) in enumerate(pick[c:c + per]):
            cps.append({"name": "w%d" % i, "var": "a", "bins": [{"name": "wb", "kind": "wild", "pats": [[v, m]]}]})
            if (m >> (W - 1)) & 1:
                cps.append({"name": "wa%d" % i, "var": "a", "bins": [{"name": "wab", "kind": "wildarray", "n": (c + i) % 3, "pats": [[v, m]]}]})
        shape = {"cls": "CGW", "vars": {"a": {"w": W}}, "cps": cps}
        out.append({"id": "wild/outside/s%d/%d" % (seed, c), "shapes": {"S": shape},
                    "ops": [{"op": "new", "shape": "S"}, {"op": "sweep", "inst": 1, "seq": [{"a": x} for x in range(1 << W)]}]})
    # witnesses of the known finding: array patterns whose leading bits are wildcards
    for t, (v, m, n) in enumerate([(0, 0b0111, 0), (1, 0b0001, 2), (0, 0, 0)]):
        shape = {"cls": "CGW", "vars": {"a": {"w": 4}},
                 "cps": [{"name": "wa", "var": "a", "bins": [{"name": "wab", "kind": "wildarray", "n": n, "pats": [[v, m]]}]}]}
        out.append({"id": "wild/witness/%d" % t, "shapes": {"S": shape},
                    "ops": [{"op": "new", "shape": "S"}, {"op": "sweep", "inst": 1, "seq": [{"a": x} for x in range(16)]}]})
    # two instances of one class whose wildcard bins differ in a NON-LAST pattern only: separate types, each swept
    for t, (p1, p2) in enumerate([([[0, 0b1100], [0b0011, 0b0011]], [[0b0100, 0b1100], [0b0011, 0b0011]]),
                                  ([[1, 1], [2, 6], [8, 8]], [[0, 1], [2, 6], [8, 8]])]):
        sh = lambda pats: {"cls": "CGW2", "vars": {"a": {"w": 4}},
                           "cps": [{"name": "w", "var": "a", "bins": [{"name": "wb", "kind": "wild", "pats": pats}]}]}
        seq = [{"a": x} for x in range(16)]
        out.append({"id": "wild/twotypes/%d" % t, "shapes": {"S0": sh(p1), "S1": sh(p2)},
                    "ops": [{"op": "new", "shape": "S0"}, {"op": "new", "shape": "S1"}, {"op": "new", "shape": "S0"},
                            {"op": "sweep", "inst": 1, "seq": seq}, {"op": "sweep", "inst": 2, "seq": seq},
                            {"op": "sweep", "inst": 3, "seq": seq[:8]}]})
    # ... and pairs of instances whose single patterns carry the SAME masked value under DIFFERENT masks (the wildcard digit sits
    # elsewhere), or different values under the same mask: different value sets, hence separate types; also as arrays
    canon = [(v, m) for m in range(1, 16) for v in range(16) if v & ~m == 0]
    same_v = [(a, b) for a in canon for b in canon if a[0] == b[0] and a[1] != b[1]]
    same_m = [(a, b) for a in canon for b in canon if a[1] == b[1] and a[0] < b[0]]
    rndp = random.Random(1922)
    picks = [((8, 0b1011), (8, 0b1101))] + rndp.sample(same_v, 5) + rndp.sample(same_m, 2)
    picks += random.Random(1923 + seed).sample(same_v, 4 if tier == "quick" else 60)
    for t, (pa, pb) in enumerate(picks):
        kind = "wild" if t % 3 != 2 or not (pa[1] & pb[1] & 8) else "wildarray"        # (arrays: top bit fixed, see the known finding)
        sh = lambda pat: {"cls": "CGW3", "vars": {"a": {"w": 4}},
                          "cps": [{"name": "w", "var": "a", "bins": [{"name": "wb", "kind": kind, "n": 0, "pats": [list(pat)]}]}]}
        seq = [{"a": x} for x in range(16)]
        out.append({"id": "wild/twomasks/%d" % t, "shapes": {"S0": sh(pa), "S1": sh(pb)},
                    "ops": [{"op": "new", "shape": "S0"}, {"op": "new", "shape": "S1"}, {"op": "sweep", "inst": 2, "seq": seq},
                            {"op": "new", "shape": "S0"}, {"op": "sweep", "inst": 1, "seq": seq[4:12]}, {"op": "sweep", "inst": 3, "seq": seq}]})
    # several patterns per bin, strings in three bases, per-sample events
    rnd = random.Random(1920 + seed)
    n = 40 if tier == "quick" else 600
    for t in range(n):
        Wt = rnd.choice([3, 4, 6] if tier == "quick" else [3, 4, 6, 8])
        cps = []
        for i in range(3):
            pats, strs = [], []
            for _ in range(rnd.randint(1, 3)):
                base = rnd.choice([2, 8, 16, 0])
                per_d = {2: 1, 8: 3, 16: 4, 0: 1}[base]
                m = 0
                for d in range((Wt + per_d - 1) // per_d):
                    if rnd.random() < 0.6:
                        m |= ((1 << per_d) - 1) << (d * per_d)
                m &= (1 << (((Wt + per_d - 1) // per_d) * per_d)) - 1
                v = rnd.randrange(1 << Wt) & m
                st = pat_str(rnd, v, m, Wt, base) if base else None
                pats.append([v, m])
                strs.append(st)
            kind = rnd.choice(["wild", "wildarray"])
            if kind == "wildarray":     # quarantine: the top bit of the coverpoint is never a wildcard in array patterns
                for k_, pm in enumerate(pats):
                    if not (pm[1] >> (Wt - 1)) & 1:
                        pm[1] |= 1 << (Wt - 1)
                        strs[k_] = None
            cps.append({"name": "w%d" % i, "var": "a",
                        "bins": [{"name": "wb", "kind": kind, "n": rnd.choice([0, 0, 2, 3]), "pats": pats, "strs": strs}]})
        shape = {"cls": "CGW", "vars": {"a": {"w": Wt}}, "cps": cps}
        ops = [{"op": "new", "shape": "S"}]
        if Wt <= 4:
            ops += [{"op": "sample", "inst": 1, "vals": {"a": v}} for v in range(1 << Wt) for _ in range(1 + (v + t) % 3 // 2)]
        else:
            ops.append({"op": "sweep", "inst": 1, "seq": [{"a": v} for v in range(1 << Wt)]})
        out.append({"id": "wild/multi/s%d/%d" % (seed, t), "shapes": {"S": shape}, "ops": ops})
    return out
