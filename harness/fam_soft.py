"""Soft-constraint families (C05)."""
import itertools
import random

from .worlds import F, B, E, lit, bits
from .fam_expr import fld, wcall, mcall, one_class_world, rel_atom, RELS


def IN(e, vals, neg=False):
    return {"k": "in", "e": e, "items": [{"k": "v", "e": lit(v)} for v in vals], "neg": neg}


def SOFT(e):
    return {"k": "soft", "e": e}


def subset(mask):
    return [v for v in range(4) if (mask >> v) & 1]


def abstract_instance(h, ss, inline=None, sid=""):
    """one 2-bit field; hard a in H; softs a in S_i in order; optional inline softs"""
    body = [E(IN(F("a"), subset(h)))] + [SOFT(IN(F("a"), subset(s))) for s in ss]
    fields = [fld("a", 2, False), fld("b", 2, False)]
    world = one_class_world(fields, body)
    ops = [{"op": "construct", "o": "o1"}, {"op": "call", "call": mcall()}, {"op": "call", "call": mcall()}]
    if inline:
        ops.append({"op": "call", "call": wcall([SOFT(IN(F("a"), subset(s))) for s in inline])})
        ops.append({"op": "call", "call": mcall()})
    return {"id": sid, "world": world, "ops": ops, "tags": []}


def family_soft_abstract(tier, seed, n=None):
    allinst = [(h, ss) for h in range(1, 16) for ss in itertools.product(range(1, 16), repeat=3)]
    rnd = random.Random(505)
    core = rnd.sample(allinst, 60 if tier == "quick" else 3000)
    rnd2 = random.Random(606 + seed)
    extra = rnd2.sample(allinst, 60 if tier == "quick" else 3000)
    out = []
    for i, (h, ss) in enumerate(core + extra):
        r = random.Random(i)
        inline = [r.randrange(1, 16) for _ in range(r.randint(1, 2))] if r.random() < 0.5 else None
        out.append(abstract_instance(h, ss, inline, "soft/abs/%s/%d_%d_%d_%d" % ("core" if i < len(core) else "s%d" % seed, h, *ss)))
    return out


def family_soft_struct(tier, seed, n=None):
    out = []
    n = n or (44 if tier == "quick" else 660)
    for t in range(n):
        core = t < n // 2
        rnd = random.Random((515 if core else 7000 + seed) * 100003 + t)
        names = ["a", "b", "c"]
        types = {"a": (2, False), "b": (2, rnd.random() < 0.3), "c": (2, False)}
        fields = [fld("a", 2, False), fld("b", 2, types["b"][1]), fld("c", 2, False, rand=rnd.random() < 0.5, init=rnd.randrange(4))]

        def atom():
            return rel_atom(rnd, names, lits=(0, 1, 2, 3))
        kind = ["pair", "triple", "guard_if", "guard_imp", "joint", "two_blocks", "sub", "guard_deep", "dyn_soft", "soft_vs_in",
                "objlist_soft"][t % 11]
        blocks_extra = []
        body = [E(atom())]
        if kind == "pair":
            v = rnd.randrange(4)
            body += [SOFT(B("eq", F("a"), lit(v))), SOFT(B("eq", F("a"), lit((v + 1) % 4)))]
        elif kind == "triple":
            body += [SOFT(B("lt", F("a"), F("b"))), SOFT(B("lt", F("b"), F("a"))), SOFT(B("eq", F("a"), F("b")))]
        elif kind == "guard_if":
            body += [{"k": "if", "arms": [{"c": atom(), "body": [SOFT(B("eq", F("a"), lit(rnd.randrange(4))))]}],
                      "els": [SOFT(B("eq", F("a"), lit(rnd.randrange(4))))]},
                     SOFT(B("ne", F("a"), lit(rnd.randrange(4))))]
        elif kind == "guard_imp":
            body += [{"k": "imp", "c": atom(), "body": [SOFT(B("eq", F("b"), lit(rnd.randrange(4))))]},
                     SOFT(B("eq", F("b"), lit(rnd.randrange(4))))]
        elif kind == "joint":
            # three softs that conflict only jointly: a<b, b<c', a>=... over two fields
            body += [SOFT(B("le", F("a"), F("b"))), SOFT(B("ne", F("a"), F("b"))), SOFT(B("ge", F("a"), F("b")))]
        elif kind == "two_blocks":
            body += [SOFT(B("eq", F("a"), lit(1)))]
            blocks_extra = [{"name": "c2", "dynamic": False, "body": [SOFT(B("eq", F("a"), lit(2))), SOFT(atom())]}]
        elif kind == "guard_deep":
            # a soft three condition levels deep (if / implies / if over non-random guards) stated after an unguarded one:
            # it wins exactly when all three guards hold
            fields += [fld("g1", 1, False, rand=False), fld("g2", 1, False, rand=False), fld("g3", 1, False, rand=False)]
            v1, v2 = rnd.sample(range(4), 2)
            body = [E(B("le", F("b"), lit(3))), SOFT(B("eq", F("a"), lit(v1))),
                    {"k": "if", "arms": [{"c": B("eq", F("g1"), lit(1)), "body": [
                        {"k": "imp", "c": B("eq", F("g2"), lit(1)), "body": [
                            {"k": "if", "arms": [{"c": B("eq", F("g3"), lit(1)), "body": [SOFT(B("eq", F("a"), lit(v2)))]}], "els": []}]}]}],
                     "els": []}]
        elif kind == "dyn_soft":
            # a dynamic block that contains a soft constraint, referenced inside the with block before a conflicting inline soft
            blocks_extra = [{"name": "ds", "dynamic": True, "body": [SOFT(B("eq", F("a"), lit(1)))]}]
            body = [E(B("le", F("b"), lit(3)))]
        elif kind == "soft_vs_in":
            # a soft default that a hard inline membership excludes
            body = [SOFT(B("eq", F("a"), lit(1))), E(B("lt", F("b"), F("a")))]
        else:
            body += [SOFT(atom()), SOFT(atom())]
        world = one_class_world(fields, body, extra_blocks=blocks_extra)
        ops = [{"op": "construct", "o": "o1"}]
        if kind == "objlist_soft":
            # class-level softs INSIDE the elements of an object list against inline softs of the call, call after call on the
            # same object: the inline one wins every time
            v0 = rnd.randrange(4)
            sub = {"base": "", "fields": [fld("x", 2, False)],
                   "blocks": [{"name": "sc", "dynamic": False, "body": [SOFT(B("eq", F("x"), lit(v0)))]}]}
            top = {"base": "", "fields": [fld("a", 2, False), {"name": "ol", "kind": "objlist", "cls": "Sub", "n": 2, "rand": True},
                                          {"name": "s", "kind": "obj", "cls": "Sub", "rand": True}],
                   "blocks": [{"name": "c1", "dynamic": False, "body": [E(B("le", F("a"), lit(3)))]}]}
            world = {"classes": {"Sub": sub, "A": top}, "population": [{"id": "o1", "cls": "A"}]}
            for rep in range(4):
                v1, v2 = (v0 + 1 + rep) % 4, (v0 + 2) % 4
                ops.append({"op": "call", "call": wcall([SOFT(B("eq", F("ol[0].x"), lit(v1))), SOFT(B("eq", F("ol[1].x"), lit(v2))),
                                                        SOFT(B("ne", F("s.x"), lit(v0)))])})
                if rep % 2 == 1:
                    ops.append({"op": "call", "call": mcall()})
            out.append({"id": "soft/%s/%s/%d" % (kind, "core" if core else "s%d" % seed, t), "world": world, "ops": ops, "tags": []})
            continue
        if kind == "guard_deep":
            for combo in range(8):
                for j, g in enumerate(("g1", "g2", "g3")):
                    ops.append({"op": "set", "p": "o1." + g, "v": bits((combo >> j) & 1, 1)})
                ops.append({"op": "call", "call": mcall()})
            out.append({"id": "soft/%s/%s/%d" % (kind, "core" if core else "s%d" % seed, t), "world": world, "ops": ops, "tags": []})
            continue
        if kind == "dyn_soft":
            for rep in range(5):
                ops.append({"op": "call", "call": wcall([E({"k": "dyn", "o": "", "b": "ds"}), SOFT(B("eq", F("a"), lit(2)))])})
                if rep == 2:
                    ops.append({"op": "call", "call": wcall([E({"k": "dyn", "o": "", "b": "ds"})])})
            out.append({"id": "soft/%s/%s/%d" % (kind, "core" if core else "s%d" % seed, t), "world": world, "ops": ops, "tags": []})
            continue
        if kind == "soft_vs_in":
            for rep in range(4):
                ops.append({"op": "call", "call": mcall()})
                ops.append({"op": "call", "call": wcall([E(IN(F("a"), rnd.sample([0, 2, 3], 2)))])})
            out.append({"id": "soft/%s/%s/%d" % (kind, "core" if core else "s%d" % seed, t), "world": world, "ops": ops, "tags": []})
            continue
        for rep in range(3):
            if not fields[2]["rand"]:
                ops.append({"op": "set", "p": "o1.c", "v": bits(rnd.randrange(4), 2)})
            ops.append({"op": "call", "call": mcall()})
            inl = [SOFT(atom())] + ([E(atom())] if rnd.random() < 0.4 else []) + ([SOFT(atom())] if rnd.random() < 0.5 else [])
            ops.append({"op": "call", "call": wcall(inl)})
        ops.append({"op": "call", "call": mcall()})
        out.append({"id": "soft/%s/%s/%d" % (kind, "core" if core else "s%d" % seed, t), "world": world, "ops": ops, "tags": []})
    return out


def family_soft_merge(tier, seed, n=None):
    """a soft constraint lands in one set of related variables; a LATER statement joins that set with the set of a list element
    named by a literal subscript (a <= l[2], either operand order): the soft constraints of both sides stay applicable - top-level,
    guarded, and inline ones"""
    out = []
    n = n or (6 if tier == "quick" else 48)
    SUBL = lambda i: {"k": "sub", "l": "l", "i": lit(i), "p": ""}
    for t in range(n):
        rnd = random.Random(7300 + t + (seed if t >= n // 2 else 0) * 1000)
        ix = rnd.choice([0, 2])
        va, vl = rnd.randrange(4), rnd.randrange(1, 4)
        fields = [fld("a", 2, False), fld("k", 2, False, rand=False, init=rnd.randrange(4)),
                  {"name": "l", "kind": "list", "w": 2, "signed": False, "rand": True, "init": [0, 0, 0], "randsz": False, "cap": 4}]
        soft_a = SOFT(B("eq", F("a"), lit(va)))
        if t % 3 == 1:
            soft_a = {"k": "if", "arms": [{"c": B("le", F("k"), lit(1)), "body": [soft_a]}], "els": [SOFT(B("ne", F("a"), lit(va)))]}
        join = B(rnd.choice(["le", "ne", "ge"]), F("a"), SUBL(ix)) if t % 2 == 0 else B(rnd.choice(["le", "ne"]), SUBL(ix), F("a"))
        body = [soft_a, E(B("ne", SUBL(ix), lit(rnd.randrange(4)))), SOFT(B("eq", SUBL(ix), lit(vl))), E(join)]
        world = one_class_world(fields, body)
        ops = [{"op": "construct", "o": "o1"}]
        for rep in range(3):
            ops.append({"op": "set", "p": "o1.k", "v": bits(rnd.randrange(4), 2)})
            ops.append({"op": "call", "call": mcall()})
            ops.append({"op": "call", "call": wcall([SOFT(B("eq", F("a"), lit((va + 1 + rep) % 4)))])})
        out.append({"id": "soft/merge/%d" % t, "world": world, "ops": ops, "tags": []})
    return out
