"""Regenerates /verif/MANIFEST.json from the table below (run: python -m harness.mkmanifest)."""
import json
import os

ROOT = os.path.dirname(os.path.dirname(os.path.abspath(__file__)))
TB = ("TLC 1.8 and its Json/IOUtils modules; the TLA+ reference semantics (BV/Expr) validated by MC_BV; the world->DSL "
      "compiler of the driver; CPython; Boolector being a deterministic function of its API calls")

# property id -> (technique, level text, design ref)
CHECKS = {
    "C01": ("TLA+ trace validation (Trace_VscRand) of recorded randomize calls + exhaustive pin-probe truth tables vs. Sol of the spec",
            "Every program of the grammar families is executed against the real library; each call and each row of the exhaustive "
            "pin-probe truth table (all assignments of the random fields, <=12 bits) must be a step of the TLA+ specification whose "
            "clauses ok_hard_hold / in_type / table_equal are evaluated by TLC with the bit-vector reference semantics. Exhaustive in "
            "values for small widths, sampled in programs.", "6 C01"),
    "C02": ("TLA+ trace validation: fail_iff_unsat decided by TLC enumerating the whole assignment space; exhaustive pin probes",
            "SolveFailure <=> Sol = {} is decided by TLC for every recorded call whose random fields total <=12 bits (DefSat enumerates "
            "all candidates), in both directions via partial-pin duals and full truth tables; any other exception has no enabled action.",
            "6 C02"),
    "C03": ("TLA+ trace validation of API histories (nonrand_frozen on every call, probes after every edit)",
            "Histories of sets, rand_mode toggles, rangelist/list edits and five call kinds over a two-object world with sub-objects; "
            "TLC checks after every call that every path outside UsedRand(call) in all objects is unchanged and that probe tables "
            "equal Sol computed from the current non-random values and container contents.", "6 C03"),
}


def main():
    props = [json.loads(l) for l in open(os.path.join(ROOT, "properties.jsonl"))]
    m = {
        "version": 1,
        "setup_cmd": "cd /verif && /venv/bin/python -m harness.setup",
        "hooks": {
            "guard": "PYVSC_VERIF",
            "enable": "PYVSC_VERIF=1 in the environment of the check (harness.check sets it; pyvsc is imported from /repo/src, "
                      "nothing to build)",
            "baseline_off_cmd": "cd /repo && env -u PYVSC_VERIF /venv/bin/python -m pytest -ra -q -p no:cacheprovider --timeout=900 "
                                "--continue-on-collection-errors",
            "source_commits": HOOK_COMMITS,
            "add_only": True,
        },
        "engines": [{"name": "harness", "path": "/verif/harness", "serves_properties": sorted(CHECKS),
                     "kind_free_text": "Python drivers execute scenarios against the real pyvsc in isolated worker processes and "
                                       "record JSON traces; TLC (spec/*.tla) is the only judge: trace validation + model checking"}],
        "checks": [],
        "notes": "All verdicts come from TLC runs on /verif/spec. DESIGN.md explains the approach; known_findings.json lists genuine "
                 "defects (open / fixed).",
        "not_applicable": [],
    }
    for p in props:
        pid = p["id"]
        if pid in CHECKS:
            tech, text, ref = CHECKS[pid]
            m["checks"].append({
                "property_id": pid,
                "quick_cmd": "/venv/bin/python -m harness.check %s --tier quick" % pid,
                "thorough_cmd": "/venv/bin/python -m harness.check %s --tier thorough" % pid,
                "evidence_file": "/verif/evidence/%s.json" % pid,
                "replay_cmd_template": "/venv/bin/python -m harness.check %s --replay {path}" % pid,
                "engine": "harness",
                "level_claimed": {"category": "model_checking", "text": text, "design_ref": "DESIGN.md section " + ref},
                "level_note": TB,
                "technique": tech,
            })
        else:
            m["not_applicable"].append({"property_id": pid, "reason": "check not built yet (in progress; see DESIGN.md section 11)"})
    json.dump(m, open(os.path.join(ROOT, "MANIFEST.json"), "w"), indent=1)
    print("claimed:", [c["property_id"] for c in m["checks"]])


HOOK_COMMITS = []

if __name__ == "__main__":
    main()
