------------------------------- MODULE TraceP -------------------------------
(* protocol prototype: batch of scenarios, total verdicts with named clauses *)
EXTENDS BV, TLC, Integers, Json, IOUtils, FiniteSets
VARIABLES sid, l, vals, rmode

Batch == JsonDeserialize(IOEnv.TRACE_FILE)
Scen(s) == Batch.scenarios[s]
NS == Len(Batch.scenarios)

MaxN(a, b) == IF a > b THEN a ELSE b
IsRel(op) == op \in {"eq","ne","lt","le","gt","ge"}
RECURSIVE WidthOf(_, _), SignedOf(_, _), Eval(_, _, _, _)
WidthOf(W, e) ==
  CASE e.k = "field" -> W.fields[e.name].w
    [] e.k = "lit" -> e.w
    [] e.k = "bin" -> IF IsRel(e.op) THEN 1 ELSE MaxN(WidthOf(W, e.l), WidthOf(W, e.r))
SignedOf(W, e) ==
  CASE e.k = "field" -> W.fields[e.name].s
    [] e.k = "lit" -> e.s
    [] e.k = "bin" -> SignedOf(W, e.l) /\ SignedOf(W, e.r)
Bool(b) == IF b THEN <<1>> ELSE <<0>>
Eval(W, e, env, cw) ==
  CASE e.k = "field" -> env[e.name]
    [] e.k = "lit" -> Ext(e.bits, MaxN(cw, e.w), TRUE)
    [] e.k = "bin" ->
         LET w == MaxN(cw, MaxN(WidthOf(W, e.l), WidthOf(W, e.r)))
             sg == SignedOf(W, e.l) /\ SignedOf(W, e.r)
             a == Ext(Eval(W, e.l, env, w), w, sg)
             b == Ext(Eval(W, e.r, env, w), w, sg)
         IN CASE e.op = "eq" -> Bool(a = b)
              [] e.op = "ne" -> Bool(a # b)
              [] e.op = "lt" -> Bool(IF sg THEN Slt(a, b) ELSE Ult(a, b))
              [] e.op = "le" -> Bool(IF sg THEN Sle(a, b) ELSE Ule(a, b))
              [] e.op = "gt" -> Bool(IF sg THEN Slt(b, a) ELSE Ult(b, a))
              [] e.op = "ge" -> Bool(IF sg THEN Sle(b, a) ELSE Ule(b, a))
              [] e.op = "add" -> Add(a, b)
              [] e.op = "sub" -> Sub(a, b)
              [] e.op = "and" -> BAnd(a, b)
              [] e.op = "or" -> BOr(a, b)
AllHold(W, env) == \A k \in 1..Len(W.constraints) : ~IsZero(Eval(W, W.constraints[k], env, 0))

Names(W) == DOMAIN W.fields
AllVals(w) == {NatBits(n, w) : n \in 0..(2^w - 1)}
RandSet(W, rm) == {f \in Names(W) : W.fields[f].rand /\ rm[f]}
\* all environments that agree with v on the non-random fields
Candidates(W, v, rm) ==
  {env \in [Names(W) -> UNION {AllVals(W.fields[f].w) : f \in Names(W)}] :
      \A f \in Names(W) : /\ Len(env[f]) = W.fields[f].w
                          /\ (f \notin RandSet(W, rm) => env[f] = v[f])}
Sol(W, v, rm) == {env \in Candidates(W, v, rm) : AllHold(W, env)}

InitState(s) == /\ vals = Scen(s).world.init
                /\ rmode = [f \in Names(Scen(s).world) |-> TRUE]
Init == sid = 1 /\ l = 1 /\ InitState(1) /\ TLCSet(1, << >>)

\* ---- guards as records of named clauses; effects as pure functions
RandomizeClauses(W, ev) ==
  [ pre_matches_spec_state |-> ev.pre = vals,
    nonrand_frozen |-> \A f \in Names(W) : f \notin RandSet(W, rmode) => ev.post[f] = ev.pre[f],
    ok_implies_hard_hold |-> (ev.exc = "none") => AllHold(W, ev.post),
    fail_iff_unsat |-> (ev.exc = "SolveFailure") => Sol(W, vals, rmode) = {},
    exception_class |-> ev.exc \in {"none", "SolveFailure"} ]
SetClauses(W, ev) == [ known_field |-> ev.f \in Names(W) ]
Clauses(W, ev) ==
  CASE ev.op = "randomize" -> RandomizeClauses(W, ev)
    [] ev.op = "set" -> SetClauses(W, ev)
    [] ev.op = "rand_mode" -> SetClauses(W, ev)
    [] OTHER -> [ known_event |-> FALSE ]
Failed(c) == {n \in DOMAIN c : ~c[n]}

Effect(W, ev) ==
  CASE ev.op = "randomize" -> <<ev.post, rmode>>
    [] ev.op = "set" -> <<[vals EXCEPT ![ev.f] = ev.v], rmode>>
    [] ev.op = "rand_mode" -> <<vals, [rmode EXCEPT ![ev.f] = ev.b]>>

NextScenario ==
  IF sid < NS THEN /\ sid' = sid + 1 /\ l' = 1
                   /\ vals' = Scen(sid + 1).world.init
                   /\ rmode' = [f \in Names(Scen(sid + 1).world) |-> TRUE]
  ELSE /\ sid' = NS + 1 /\ l' = 1 /\ UNCHANGED <<vals, rmode>>
Verdict(v) == TLCSet(1, Append(TLCGet(1), v))

Next ==
  /\ sid <= NS
  /\ LET S == Scen(sid) W == S.world IN
     IF l > Len(S.events)
     THEN Verdict(<<S.id, "PASS">>) /\ NextScenario
     ELSE LET ev == S.events[l]  bad == Failed(Clauses(W, ev)) IN
          IF bad = {}
          THEN /\ vals' = Effect(W, ev)[1] /\ rmode' = Effect(W, ev)[2]
               /\ l' = l + 1 /\ sid' = sid
          ELSE Verdict(<<S.id, "FAIL", l, ev.op, bad>>) /\ NextScenario
Done == /\ PrintT(<<"VERDICTS", TLCGet(1)>>)
        /\ Len(TLCGet(1)) = NS
=============================================================================
