#!/bin/bash
# usage: adopt.sh <PID> <k> [<k in seeded/>] : confirm demo on clean (exit 0) and mutated (non-zero) selftest tree, copy to /verif/seeded/<PID>_m<k>
PID=$1; K=$2; DK=${3:-$2}; SRC=/tmp/wt/$PID/mutants/m$K; DST=/verif/seeded/${PID}_m$DK
cd /tmp/selftest && git checkout -q --detach $(git -C /repo rev-parse HEAD) 2>/dev/null; git checkout -q -- .; git clean -qfd src
git -C /repo diff | git apply 2>/dev/null; for f in $(git -C /repo ls-files --others --exclude-standard src); do mkdir -p $(dirname $f); cp /repo/$f $f; done
PYTHONPATH=/tmp/selftest/src timeout 300 /venv/bin/python $SRC/demo.py > /tmp/demo_clean.log 2>&1; C=$?
git apply $SRC/patch.diff || { echo "$PID m$K PATCH FAILED"; exit 3; }
PYTHONPATH=/tmp/selftest/src timeout 300 /venv/bin/python $SRC/demo.py > /tmp/demo_mut.log 2>&1; M=$?
git checkout -q -- .
echo "$PID m$K demo clean=$C mutant=$M"
if [ $C -eq 0 ] && [ $M -ne 0 ]; then
  mkdir -p $DST; cp $SRC/patch.diff $SRC/demo.py $SRC/notes.txt $DST/ 2>/dev/null
  echo "{\"property\": \"$PID\", \"demo_clean_exit\": $C, \"demo_mutant_exit\": $M}" > $DST/meta.partial.json
fi
