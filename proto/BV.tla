------------------------------- MODULE BV -------------------------------
EXTENDS Naturals, Sequences, FiniteSets

\* A bit-vector is a sequence of bits, least-significant first.
Bit == {0, 1}
Width(v) == Len(v)

Zero(w) == [i \in 1..w |-> 0]
Ones(w) == [i \in 1..w |-> 1]

\* natural number -> w-bit vector (n < 2^31)
RECURSIVE NatBits(_, _)
NatBits(n, w) == IF w = 0 THEN << >> ELSE <<n % 2>> \o NatBits(n \div 2, w - 1)

\* vector -> natural (only for Len(v) <= 30)
RECURSIVE ToNat(_)
ToNat(v) == IF v = << >> THEN 0 ELSE Head(v) + 2 * ToNat(Tail(v))

Msb(v) == v[Len(v)]

Zext(v, w) == IF Len(v) >= w THEN SubSeq(v, 1, w) ELSE v \o Zero(w - Len(v))
Sext(v, w) == IF Len(v) >= w THEN SubSeq(v, 1, w)
              ELSE v \o [i \in 1..(w - Len(v)) |-> Msb(v)]
Ext(v, w, signed) == IF signed THEN Sext(v, w) ELSE Zext(v, w)

BNot(v) == [i \in 1..Len(v) |-> 1 - v[i]]
BAnd(a, b) == [i \in 1..Len(a) |-> a[i] * b[i]]
BOr(a, b)  == [i \in 1..Len(a) |-> IF a[i] + b[i] > 0 THEN 1 ELSE 0]
BXor(a, b) == [i \in 1..Len(a) |-> (a[i] + b[i]) % 2]

\* ripple-carry adder, one pass (recursive operator, O(w))
RECURSIVE AddRec(_, _, _, _, _)
AddRec(a, b, i, c, acc) ==
  IF i > Len(a) THEN acc
  ELSE LET s == a[i] + b[i] + c IN AddRec(a, b, i + 1, s \div 2, Append(acc, s % 2))
AddC(a, b, c0) == AddRec(a, b, 1, c0, << >>)
Add(a, b) == AddC(a, b, 0)
Sub(a, b) == AddC(a, BNot(b), 1)
Neg(a) == Sub(Zero(Len(a)), a)

\* unsigned less-than: scan from msb
RECURSIVE UltRec(_, _, _)
UltRec(a, b, i) == IF i = 0 THEN FALSE
                   ELSE IF a[i] # b[i] THEN a[i] < b[i] ELSE UltRec(a, b, i - 1)
Ult(a, b) == UltRec(a, b, Len(a))
Ule(a, b) == ~Ult(b, a)
Slt(a, b) == IF Msb(a) # Msb(b) THEN Msb(a) = 1 ELSE Ult(a, b)
Sle(a, b) == ~Slt(b, a)

IsZero(v) == \A i \in 1..Len(v) : v[i] = 0

\* shift by natural amount n
Shl(v, n) == LET w == Len(v) IN [i \in 1..w |-> IF i - n >= 1 THEN v[i - n] ELSE 0]
Lshr(v, n) == LET w == Len(v) IN [i \in 1..w |-> IF i + n <= w THEN v[i + n] ELSE 0]

\* shift amount given as vector: any set bit at position >= 7 (i.e. >= 64) saturates
AmtSmall(v) == \A i \in 1..Len(v) : i > 7 => v[i] = 0
AmtNat(v) == ToNat(SubSeq(v, 1, IF Len(v) < 7 THEN Len(v) ELSE 7))
ShlV(v, s) == IF AmtSmall(s) THEN Shl(v, AmtNat(s)) ELSE Zero(Len(v))
LshrV(v, s) == IF AmtSmall(s) THEN Lshr(v, AmtNat(s)) ELSE Zero(Len(v))

\* multiplication: shift-add, truncated to width
RECURSIVE MulRec(_, _, _, _)
MulRec(a, b, i, acc) ==
  IF i > Len(a) THEN acc
  ELSE MulRec(a, b, i + 1, IF b[i] = 1 THEN Add(acc, Shl(a, i - 1)) ELSE acc)
Mul(a, b) == MulRec(a, b, 1, Zero(Len(a)))

\* unsigned division / remainder by restoring long division; x/0 = all ones, x%0 = x (SMT-LIB)
RECURSIVE DivRec(_, _, _, _, _)
DivRec(a, b, bitpos, q, r) ==
  IF bitpos = 0 THEN <<q, r>>
  ELSE LET w == Len(a)
           r2 == <<a[bitpos]>> \o SubSeq(r, 1, w - 1)
       IN IF r[w] = 1 \/ Ule(b, r2)
          THEN DivRec(a, b, bitpos - 1, [q EXCEPT ![bitpos] = 1], Sub(r2, b))
          ELSE DivRec(a, b, bitpos - 1, q, r2)
DivRem(a, b) == IF IsZero(b) THEN <<Ones(Len(a)), a>>
                ELSE DivRec(a, b, Len(a), Zero(Len(a)), Zero(Len(a)))
Udiv(a, b) == DivRem(a, b)[1]
Urem(a, b) == DivRem(a, b)[2]

Slice(v, hi, lo) == SubSeq(v, lo + 1, hi + 1)
=============================================================================
