#!/bin/bash
# usage: mutrun.sh <patch> <check ids...> : apply patch to a scratch worktree, run quick checks, remove
P=$1; shift; WT=/tmp/mutrun_wt_$$
git -C /repo worktree add -q --detach $WT HEAD || exit 2
(cd $WT && git apply $P) || { echo PATCH FAILED; git -C /repo worktree remove --force $WT; exit 3; }
for c in "$@"; do
  (cd /verif && VERIF_REPO=$WT /venv/bin/python -m harness.check $c --tier ${TIER:-quick} > /tmp/mutrun_$c.log 2>&1); rc=$?
  echo "   $c exit=$rc $(grep -c '^VIOLATION' /tmp/mutrun_$c.log) violations; $(grep -v '^VIOLATION' /tmp/mutrun_$c.log | tail -1)"
done
git -C /repo worktree remove --force $WT
