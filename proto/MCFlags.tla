------------------------------- MODULE MCFlags -------------------------------
(* prototype of the A-level API state machine on world W-flags, with history for replay *)
EXTENDS Naturals, Sequences, FiniteSets, TLC, Json
CONSTANTS MaxLevel
VARIABLES alive, val, rmode, cmode, hist
vars == <<alive, val, rmode, cmode, hist>>
Objs == {"o1", "o2", "o3"}
Cls(o) == IF o = "o3" THEN "B" ELSE "A"
V == 0..3
Fields == {"a", "b", "k"}
Blocks == {"c1", "c2"}
Inlines == {"none", "a_eq_k", "d1", "d1_or_d2", "contradiction"}
\* block meanings (most-derived by name): class B overrides c1
BlockHolds(o, blk, e) ==
  CASE blk = "c1" -> IF Cls(o) = "B" THEN e.a > e.b ELSE e.a < e.b
    [] blk = "c2" -> e.a # e.k
InlineHolds(i, e) ==
  CASE i = "none" -> TRUE
    [] i = "a_eq_k" -> e.a = e.k
    [] i = "d1" -> e.b = 3
    [] i = "d1_or_d2" -> e.b = 3 \/ e.a = 0
    [] i = "contradiction" -> e.a < e.a
Used(o) == (IF rmode[o] THEN {"a"} ELSE {}) \cup {"b"}          \* k is never random
Sol(o, i) ==
  {e \in [Fields -> V] :
      /\ \A f \in Fields \ Used(o) : e[f] = val[o][f]
      /\ \A blk \in Blocks : cmode[o][blk] => BlockHolds(o, blk, e)
      /\ InlineHolds(i, e)}
Init == /\ alive = {"o1"}
        /\ val = [o \in Objs |-> [f \in Fields |-> 0]]
        /\ rmode = [o \in Objs |-> TRUE]
        /\ cmode = [o \in Objs |-> [blk \in Blocks |-> TRUE]]
        /\ hist = << >>
Log(ev) == hist' = Append(hist, ev)
Construct(o) == /\ o \notin alive /\ alive' = alive \cup {o}
                /\ UNCHANGED <<val, rmode, cmode>> /\ Log([op |-> "construct", obj |-> o])
SetK(o, v) == /\ o \in alive /\ val[o].k # v /\ val' = [val EXCEPT ![o].k = v]
              /\ UNCHANGED <<alive, rmode, cmode>> /\ Log([op |-> "set", obj |-> o, f |-> "k", v |-> v])
ToggleRand(o) == /\ o \in alive /\ rmode' = [rmode EXCEPT ![o] = ~@]
                 /\ UNCHANGED <<alive, val, cmode>> /\ Log([op |-> "rand_mode", obj |-> o, f |-> "a", b |-> ~rmode[o]])
ToggleC(o, blk) == /\ o \in alive /\ cmode' = [cmode EXCEPT ![o][blk] = ~@]
                   /\ UNCHANGED <<alive, val, rmode>> /\ Log([op |-> "constraint_mode", obj |-> o, blk |-> blk, b |-> ~cmode[o][blk]])
Randomize(o, i) ==
  /\ o \in alive
  /\ IF Sol(o, i) = {}
     THEN UNCHANGED val /\ Log([op |-> "randomize", obj |-> o, inline |-> i, exp |-> "SolveFailure"])
     ELSE \E e \in Sol(o, i) : val' = [val EXCEPT ![o] = e] /\ Log([op |-> "randomize", obj |-> o, inline |-> i, exp |-> "ok"])
  /\ UNCHANGED <<alive, rmode, cmode>>
Next == \E o \in Objs :
          \/ Construct(o) \/ ToggleRand(o)
          \/ \E v \in V : SetK(o, v)
          \/ \E blk \in Blocks : ToggleC(o, blk)
          \/ \E i \in Inlines : Randomize(o, i)
Spec == Init /\ [][Next]_vars
View == <<alive, val, rmode, cmode>>
Bound == TLCGet("level") <= MaxLevel
\* A-level invariants (sanity: hold by construction of the actions)
NonRandFrozenInv == \A o \in Objs : o \notin alive => val[o] = [f \in Fields |-> 0]
\* emit histories during simulation
EmitAtDepth == IF Len(hist) = MaxLevel - 1 THEN PrintT(<<"HIST", ToJson(hist)>>) ELSE TRUE
=============================================================================
