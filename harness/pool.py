"""Process isolation for scenario execution (DESIGN 4.2): every scenario runs in a worker
subprocess; a worker that dies (segfault inside the solver binding, hang) yields the outcome
`crash:<signal>` for that scenario and a fresh worker takes over."""
import json
import multiprocessing as mp
import os
import signal
import sys
import time


def _worker(inq, outq, repo):
    os.environ.setdefault("PYTHONHASHSEED", "0")
    # the solver binding prints "Exception ignored in __dealloc__" noise on stderr
    try:
        fd = os.open(os.path.join(os.path.dirname(os.path.dirname(os.path.abspath(__file__))), "out", "workers.stderr"),
                     os.O_WRONLY | os.O_CREAT | os.O_APPEND)
        os.dup2(fd, 2)
    except OSError:
        pass
    if repo:
        sys.path.insert(0, os.path.join(repo, "src"))
    from . import runner     # noqa  (imports vsc from the working tree)
    while True:
        job = inq.get()
        if job is None:
            return
        idx, scn, seed, fn = job
        outq.put(("start", idx))
        try:
            mod = __import__("harness." + fn[0], fromlist=[fn[1]])
            res = getattr(mod, fn[1])(scn, seed)
        except BaseException as e:   # noqa
            import traceback
            res = {"id": scn.get("id"), "world": {}, "events": [],
                   "harness_error": "%s: %s\n%s" % (type(e).__name__, e, traceback.format_exc())}
        outq.put(("done", idx, res))


def run_all(scenarios, seed=0, nproc=None, fn=("runner", "run_scenario"), repo=None, per_scn_timeout=400):
    """runs scenarios in isolated workers, preserving order; returns list of results"""
    nproc = nproc or min(14, max(1, (os.cpu_count() or 2) - 2))
    nproc = min(nproc, max(1, len(scenarios)))
    ctx = mp.get_context("fork")
    results = [None] * len(scenarios)
    pending = list(range(len(scenarios)))[::-1]
    workers = {}

    def spawn():
        inq, outq = ctx.Queue(), ctx.Queue()
        p = ctx.Process(target=_worker, args=(inq, outq, repo), daemon=True)
        p.start()
        return {"p": p, "inq": inq, "outq": outq, "cur": None, "t0": 0}

    for _ in range(nproc):
        w = spawn()
        workers[w["p"].pid] = w

    def feed(w):
        if pending:
            i = pending.pop()
            w["cur"] = i
            w["t0"] = time.time()
            w["inq"].put((i, scenarios[i], seed + i, fn))
        else:
            w["cur"] = None
    for w in list(workers.values()):
        feed(w)
    done = 0
    while done < len(scenarios):
        progressed = False
        for pid, w in list(workers.items()):
            try:
                while True:
                    msg = w["outq"].get_nowait()
                    if msg[0] == "done":
                        results[msg[1]] = msg[2]
                        done += 1
                        progressed = True
                        feed(w)
            except Exception:
                pass
            if w["cur"] is not None:
                dead = not w["p"].is_alive()
                hung = time.time() - w["t0"] > per_scn_timeout
                if dead or hung:
                    # drain once more (result may have arrived just before death)
                    try:
                        msg = w["outq"].get(timeout=0.2)
                        if msg[0] == "done":
                            results[msg[1]] = msg[2]
                            done += 1
                            w["cur"] = None
                    except Exception:
                        pass
                    if w["cur"] is not None:
                        i = w["cur"]
                        if hung and not dead:
                            w["p"].kill()
                            why = "crash:timeout"
                        else:
                            why = "crash:%s" % (-(w["p"].exitcode or 0))
                        results[i] = {"id": scenarios[i]["id"], "world": {}, "events": [], "crash": why}
                        done += 1
                    del workers[pid]
                    nw = spawn()
                    workers[nw["p"].pid] = nw
                    feed(nw)
                    progressed = True
        if not progressed:
            time.sleep(0.005)
    for w in workers.values():
        try:
            w["inq"].put(None)
        except Exception:
            pass
    for w in workers.values():
        w["p"].join(timeout=1)
        if w["p"].is_alive():
            w["p"].kill()
    return results
