"""C09 - random stability: results depend only on seed, model and call history."""
from .. import engine, fam_stab, fam_mc

LEVEL = "model_checking"
MODULE = "Trace_Stab"
RUNNER = ("runner_stab", "run_scenario")


def run(tier, seed, limit=0):
    chk = engine.Check("C09", tier, seed)
    scs = fam_stab.family_stab(tier, seed)
    mc_scs, sim_states = fam_mc.family_mc_stab(tier, seed)          # TLC-generated behaviours of B_RandState, replayed
    scs = scs + mc_scs
    chk.extra_cov["tlc_generated_histories_replayed"] = len(mc_scs)
    chk.extra_cov["tlc_simulation_states"] = sim_states
    if limit:
        scs = scs[:limit]
    chk.run_scenarios(scs, MODULE, fn=RUNNER, batch_events=400)
    # the reference/copy discipline behind snapshots and restores, for EVERY history of seeds, snapshots, restores, calls, free
    # calls with an explicit state and global-generator noise: the cells objects and user-held states refer to hold exactly the
    # abstract stream values of RandStability (B |= A)
    if tier == "quick":
        chk.run_mc("B_RandState", label="RandState cells |= stream values: snapshots independent, restores copy")
    else:
        chk.run_mc("B_RandState", {"Names": '{"s1", "s2"}', "MaxCells": 5}, workers=12, label="RandState cells |= stream values, two user-held states")
    return chk.finish(LEVEL, "histories of seeds (also one RandState seeding two objects), calls (method / with, satisfiable and not), "
                      "snapshots and restores (into the same and into another instance), each executed in 3-4 fresh processes that "
                      "differ in PYTHONHASHSEED, interleaved unrelated randomizations / global random use / GC and hashing pressure, "
                      "debug / solve_fail_debug / VSC_CAPTURE_SRCINFO / VSC_SOLVEFAIL_DEBUG; TLC keeps a memo keyed by (class, stream "
                      "origin, history) across runs and snapshots and requires every observation of a key to be identical, and no draw "
                      "from Python's global generator inside a call with an explicit state",
                      ["TLC 1.8; RandStability.tla; CPython's random.Random and Boolector deterministic given identical call sequences"])
