"""print a violation replay file in readable form"""
import json
import sys
from .worlds import unbits


def short(ev):
    d = {k: v for k, v in ev.items() if k in ("op", "p", "b", "o", "en", "exc", "kind", "paths", "added", "vs", "i")}
    if "v" in ev and ev["op"] == "set":
        d["v"] = unbits(ev["v"])
    if "call" in ev:
        d["call"] = {"kind": ev["call"]["kind"], "roots": ev["call"]["roots"], "inline": json.dumps(ev["call"]["inline"])[:300]}
    return d


def vals(p):
    return {k: unbits(v) for k, v in p.get("v", {}).items()}


def main(path):
    d = json.load(open(path))
    print("KEY", d["key"])
    print("VERDICT", d.get("verdict"))
    if "diag" in d:
        print("DIAG", d["diag"])
    r = d["result"]
    l = d["key"]["event"]
    for i, ev in enumerate(r["events"][:l], 1):
        print(i, short(ev))
        if ev["op"] == "call":
            pre, post = vals(ev["pre"]), vals(ev["post"])
            print("     changed:", {k: (pre.get(k), post[k]) for k in post if pre.get(k) != post[k]})
    ev = r["events"][l - 1] if l else {}
    if "pre" in ev:
        print("PRE ", vals(ev["pre"]), ev["pre"].get("sz"))
    if "post" in ev:
        print("POST", vals(ev["post"]), ev["post"].get("sz"))
    if "rows" in ev:
        print("ROWS", ev["rows"][:64])
    if ev.get("cbs"):
        print("CBS", [(c["ph"], c["o"]) for c in ev["cbs"]])
    print("STK", ev.get("stk"))


if __name__ == "__main__":
    main(sys.argv[1])
