#!/bin/bash
# Re-runs the quick check(s) of every kept seeded change against a scratch worktree of /repo carrying it and prints one
# line per change: CAUGHT (exit 1), MISSED (exit 0) or ERROR.  Usage: tools/run_seeded.sh [pattern]   (from /verif)
# The scratch worktree lives outside /repo and /verif and is removed at the end.
set -u
WT=${SEEDED_WT:-/tmp/seeded_wt}
git -C /repo worktree remove --force "$WT" 2>/dev/null
git -C /repo worktree add -q --detach "$WT" HEAD || exit 2
for d in /verif/seeded/${1:-*}_m*; do
  n=$(basename "$d"); pid=${n%%_*}
  (cd "$WT" && git checkout -q -- . && git clean -qfd src && git apply "$d/patch.diff" 2>/dev/null) || { echo "$n ERROR patch does not apply"; continue; }
  checks=$pid
  [ -f "$d/also_checks" ] && checks="$pid $(cat $d/also_checks)"
  res=""
  for c in $checks; do
    (cd /verif && VERIF_OUT=/verif/out_seeded VERIF_REPO="$WT" /venv/bin/python -m harness.check $c --tier quick > /tmp/seeded_$n.log 2>&1); rc=$?
    res="$res $c=$rc"
  done
  case "$res" in *"=1"*) echo "$n CAUGHT$res";; *"=2"*) echo "$n ERROR$res";; *) echo "$n MISSED$res";; esac
done
git -C /repo worktree remove --force "$WT"
