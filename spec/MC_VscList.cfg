CONSTANT MaxLevel = 5
SPECIFICATION Spec
CONSTRAINT Bound
VIEW View
INVARIANT TypeOK
INVARIANT FacadeConsistent
INVARIANT ListBlocksHoldAfterOk
INVARIANT ThreeElementsUnsat
INVARIANT EmptyMembershipUnsat
PROPERTY LengthKept
PROPERTY FailIffUnsat
PROPERTY OtherObjectUntouched
CHECK_DEADLOCK FALSE
