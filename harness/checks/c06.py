"""C06 - inline and dynamic constraints bind to exactly one call and to the right object."""
from .. import engine, fam_mc, fam_inst, fam_soft, fam_fault

LEVEL = "model_checking"


def run(tier, seed, limit=0):
    chk = engine.Check("C06", tier, seed)
    scs = fam_inst.family_dyn(tier, seed) + fam_inst.family_dyn_member_foreach(tier, seed)
    # a dynamic block with a soft constraint referenced before a conflicting inline soft, repeated: nothing of a call may
    # survive into the next one (soft priorities included)
    scs += [x for x in fam_soft.family_soft_struct(tier, seed) if "/dyn_soft/" in x["id"]]
    # with-blocks abandoned by a user exception: nothing written in them may rule a later block, on this or another object
    scs += fam_fault.family_F(tier, seed, n=8 if tier == "quick" else 80)
    mc_scs, sim_states = fam_mc.family_mc(tier, seed)          # TLC-generated behaviours of MC_VscRand, replayed
    scs = scs + mc_scs
    chk.extra_cov["tlc_generated_histories_replayed"] = len(mc_scs)
    chk.extra_cov["tlc_simulation_states"] = sim_states
    if limit:
        scs = scs[:limit]
    chk.run_scenarios(scs, "Trace_VscRand")
    chk.run_mc("MC_VscRand", {"MaxLevel": 4 if tier == "quick" else 6}, workers=12, label="A-level API machine on world W-flags")
    return chk.finish(LEVEL, "populations of 1..3 instances of one class (created before and after the randomized one, distinguishable "
                      "non-random values) plus holders with nested / list-element instances; randomize_with over inline constraints and "
                      "Boolean terms of dynamic-constraint references; per call: the truth table of that call and afterwards the plain "
                      "truth table of every live instance, all compared by TLC with Sol",
                      ["TLC 1.8; VscRand HoldsBlock on the referent; world->DSL compiler"])
