"""C15 - dist and weighted selection follow their weights; zero weight means never."""
from .. import engine, fam_dist

LEVEL = "model_checking"


def run(tier, seed, limit=0):
    chk = engine.Check("C15", tier, seed)
    scs = fam_dist.family_dist(tier, seed) + fam_dist.family_dist_foreach(tier, seed) + fam_dist.family_select(tier, seed)
    if limit:
        scs = scs[:limit]
    chk.run_scenarios(scs, "Trace_VscRand")
    chk.run_mc("B_Walk", {"MaxW": 4 if tier == "quick" else 6}, label="cumulative-weight walk |= w_i/total")
    return chk.finish(LEVEL, "dist statements over a 3-bit field (values, ranges, zero weights, a weight read from a non-random field, "
                      "accompanying hard constraints): pin-probe truth table = DistSupport /\\ Sol (zero-weight and unlisted values "
                      "are rows that must fail) and EXHAUSTIVE enumeration of every draw sequence of randomize() giving the exact "
                      "output distribution, compared by TLC with weight/total and uniform-in-range as exact fractions; distselect / "
                      "randselect observed for every seed 1..total of every weight vector of the tier",
                      ["TLC 1.8; exact path probabilities accumulated with Python fractions.Fraction; uniformity of each "
                       "random.Random draw; Boolector deterministic"])
