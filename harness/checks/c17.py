"""C17 - pre_randomize / post_randomize run once each, before and after the solve."""
from .. import engine, fam_tree, fam_list

LEVEL = "model_checking"


def run(tier, seed, limit=0):
    chk = engine.Check("C17", tier, seed)
    scs = fam_tree.family_T(tier, seed, tag="T17") + fam_tree.family_cb_special(tier, seed) + fam_tree.family_cb_nothing_to_solve(tier, seed)
    # random-size lists of objects with hooks: every exposed element is called once, before and after the solve, also when the
    # solved size shrinks and grows again; an element's pre_randomize assigns a field its own block reads
    scs += fam_list.family_objlist_randsz(tier, seed, n=6 if tier == "quick" else 60, cb_all=True, tag="T17/objrs")
    if limit:
        scs = scs[:limit]
    chk.run_scenarios(scs, "Trace_VscRand", nontrivial=lambda r: any(e.get("cbs") for e in r["events"]))
    chk.run_mc("B_UsedRand", {"MaxLevel": 4 if tier == "quick" else 6}, label="is_used_rand mechanics |= UsedRand")
    return chk.finish(LEVEL, "random object trees (3 levels, object lists, rand/non-rand members) x call kinds (method, with, free on "
                      "object and sub-object roots, free_with) x pre_randomize callbacks assigning non-random fields; TLC checks "
                      "pre/post once each on exactly the used-random composites, order, values seen; non-trivial = has callback events",
                      ["TLC 1.8; VscRand.UsedObjs; world->DSL compiler"])
