"""CLI:  python -m harness.check <Cxx> [--tier quick|thorough] [--replay path]"""
import argparse
import importlib
import json
import os
import sys

ROOT = os.path.dirname(os.path.dirname(os.path.abspath(__file__)))
REPO = os.environ.get("VERIF_REPO", "/repo")
sys.path.insert(0, os.path.join(REPO, "src"))
os.environ.setdefault("PYTHONHASHSEED", "0")
os.environ["PYVSC_VERIF"] = "1"


def main():
    ap = argparse.ArgumentParser()
    ap.add_argument("pid")
    ap.add_argument("--tier", default=os.environ.get("VERIF_TIER", "quick"))
    ap.add_argument("--replay")
    ap.add_argument("--limit", type=int, default=0)
    a = ap.parse_args()
    seed = int(os.environ.get("VERIF_SEED", "0") or 0)
    mod = importlib.import_module("harness.checks." + a.pid.lower())
    from . import engine, tlc
    try:
        if a.replay:
            rc = mod.replay(a.replay, seed) if hasattr(mod, "replay") else engine.replay(a.pid, a.replay, seed,
                                                                                      getattr(mod, "MODULE", "Trace_VscRand"),
                                                                                      getattr(mod, "RUNNER", ("runner", "run_scenario")))
        else:
            rc = mod.run(a.tier, seed, limit=a.limit)
    except tlc.TlcError as e:
        print("MACHINERY-ERROR: %s" % e, file=sys.stderr)
        rc = 2
    sys.exit(rc)


if __name__ == "__main__":
    main()
