import sys, io, contextlib
sys.path.insert(0,'/tmp/shim'); import btorshim
import vsc
from vsc.impl import ctor, expr_mode
def quiet(f):
    with contextlib.redirect_stdout(io.StringIO()):
        return f()
# 1 dynamic constraint aliasing
@vsc.randobj
class D:
    def __init__(self):
        self.a = vsc.rand_uint8_t()
    @vsc.dynamic_constraint
    def small(self):
        self.a < 4
o1=D(); o2=D()
o2.a = 77
bad=0
for i in range(30):
    with o1.randomize_with() as it:
        it.small()
    if o1.a >= 4: bad+=1
print("dyn alias: o1 violations", bad, "o2.a now", o2.a)
# 2 signed set_val
@vsc.randobj
class S:
    def __init__(self):
        self.s = vsc.int8_t()
        self.u = vsc.bit_t(8)
s=S(); s.s = 200; s.u=0
print("signed set 200 ->", s.s)
with vsc.raw_mode():
    s.u[3:0] = 0xF
    print("partsel write u[3:0]=F ->", hex(s.u.get_val()))
    s.u.set_val(0xFF); s.u[2]=0
    print("bit clear u[2]=0 on FF ->", hex(s.u.get_val()))
    s.u.set_val(0xA5)
    print("partsel read u[7:4] of A5 ->", hex(s.u[7:4]))
# 3 exception in constraint body during construction
@vsc.randobj
class E:
    def __init__(self, boom):
        self.boom=boom
        self.a = vsc.rand_uint8_t()
    @vsc.constraint
    def c(self):
        self.a < 4
        if self.boom: raise ValueError("user")
try:
    quiet(lambda: E(True))
except ValueError: pass
print("after ctor exc: scope stack", len(ctor.constraint_scope_stack), "expr_l", len(ctor.expr_l), "expr_mode", len(expr_mode._expr_mode), "srcinfo", len(ctor.srcinfo_mode_s))
# 4 exception in pre_randomize
@vsc.randobj
class P:
    def __init__(self):
        self.a = vsc.rand_uint8_t(); self.n=0
    def pre_randomize(self):
        self.n+=1
        if self.n==1: raise ValueError("pre")
ctor.test_setup(); expr_mode._expr_mode.clear()
p=P()
try: p.randomize()
except ValueError: pass
print("after pre exc: scope stack", len(ctor.constraint_scope_stack), "expr_l", len(ctor.expr_l), "expr_mode", len(expr_mode._expr_mode))
# 5 exception inside with block
try:
    with p.randomize_with() as it:
        it.a < 5
        raise KeyError("x")
except KeyError: pass
print("after with exc: scope stack", len(ctor.constraint_scope_stack), "expr_l", len(ctor.expr_l), "expr_mode", len(expr_mode._expr_mode), "a=",p.a)
