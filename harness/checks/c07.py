"""C07 - enforced blocks = most-derived, enabled, of this very instance (constraint_mode)."""
from .. import engine, fam_mc, fam_inst

LEVEL = "model_checking"


def run(tier, seed, limit=0):
    chk = engine.Check("C07", tier, seed)
    scs = fam_inst.family_cmode(tier, seed)
    mc_scs, sim_states = fam_mc.family_mc(tier, seed)          # TLC-generated behaviours of MC_VscRand, replayed
    scs = scs + mc_scs
    chk.extra_cov["tlc_generated_histories_replayed"] = len(mc_scs)
    chk.extra_cov["tlc_simulation_states"] = sim_states
    if limit:
        scs = scs[:limit]
    chk.run_scenarios(scs, "Trace_VscRand", nontrivial=lambda r: any(e["op"] == "cmode" for e in r["events"]))
    chk.run_mc("MC_VscRand", {"MaxLevel": 4 if tier == "quick" else 6}, workers=12, label="A-level API machine on world W-flags")
    return chk.finish(LEVEL, "class hierarchy A <- B <- C with overridden block names, holder objects with nested and list-element "
                      "instances, instances created after toggles; random toggle/call/construct histories with a pin-probe truth table "
                      "of some instance after every step and of every instance at the end; TLC compares each table with Sol over "
                      "exactly the most-derived enabled blocks of that instance; non-trivial = contains a toggle",
                      ["TLC 1.8; VscRand.FindBlock/HardAll; world->DSL compiler"])
