"""usage: mkmeta.py <PID_mk> <needs_to_manifest> <checks_run>  -- writes seeded/<PID_mk>/meta.json from notes.txt + meta.partial.json"""
import json, os, re, sys
d = os.path.join(os.path.dirname(os.path.dirname(os.path.abspath(__file__))), "seeded", sys.argv[1])
notes = open(os.path.join(d, "notes.txt")).read().strip().split("\n")
part = json.load(open(os.path.join(d, "meta.partial.json"))) if os.path.exists(os.path.join(d, "meta.partial.json")) else {}
summ = [l for l in notes if re.search(r"\d+ passed", l)]
meta = {"property": sys.argv[1].split("_")[0], "round": 2,
        "breaks": notes[0][:700],
        "needs_to_manifest": sys.argv[2],
        "confirmed": {"demo_exit_clean_tree": part.get("demo_clean_exit", 0), "demo_exit_with_change": part.get("demo_mutant_exit", 1),
                      "repository_tests_with_change": (re.search(r"\d+ passed[^\"')]*", summ[0]).group(0) if summ else "see notes.txt")
                      + " (run by the producing sub-agent)"},
        "checks_run": sys.argv[3],
        "how_to_rerun": "tools/mut.sh /verif/seeded/%s/patch.diff %s" % (sys.argv[1], sys.argv[1].split("_")[0])}
json.dump(meta, open(os.path.join(d, "meta.json"), "w"), indent=1)
if os.path.exists(os.path.join(d, "meta.partial.json")):
    os.remove(os.path.join(d, "meta.partial.json"))
print("wrote", d)
