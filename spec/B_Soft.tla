------------------------------- MODULE B_Soft -------------------------------
(***************************************************************************)
(* Mechanism-level model of the soft-constraint handling of                 *)
(* Randomizer.randomize (C05): all soft constraints are first assumed       *)
(* together; on conflict they are re-tried one by one in descending         *)
(* priority and asserted only if the system stays satisfiable.  Constraint  *)
(* systems are abstracted as subsets of a small universe of assignments.    *)
(* Obligation B |= A: the kept set is the reference greedy set, is maximal, *)
(* and a satisfiable hard part never fails.  One TLC state per instance.    *)
(***************************************************************************)
EXTENDS Naturals, Sequences, FiniteSets, TLC
CONSTANTS U, NSoft
VARIABLES hard, softs, kept
vars == <<hard, softs, kept>>
Subsets == SUBSET U
Inter(S) == {u \in U : \A s \in S : u \in s}

\* implementation: assume all; if sat assert all; else one by one in descending priority (index = priority)
RECURSIVE ImplLoop(_, _, _, _)
ImplLoop(asserted, sf, i, k) ==
  IF i = 0 THEN k
  ELSE IF (asserted \cap sf[i]) # {} THEN ImplLoop(asserted \cap sf[i], sf, i - 1, k \cup {i})
       ELSE ImplLoop(asserted, sf, i - 1, k)
ImplKept(h, sf) ==
  IF (h \cap Inter({sf[k] : k \in 1..NSoft})) # {} THEN 1..NSoft ELSE ImplLoop(h, sf, NSoft, {})

\* requirement (A level): greedy by priority, maximal
RECURSIVE RefKept(_, _, _, _)
RefKept(h, sf, i, k) ==
  IF i = 0 THEN k
  ELSE IF (h \cap Inter({sf[j] : j \in k}) \cap sf[i]) # {} THEN RefKept(h, sf, i - 1, k \cup {i}) ELSE RefKept(h, sf, i - 1, k)

Init == /\ hard \in Subsets \ {{}} /\ softs \in [1..NSoft -> Subsets \ {{}}] /\ kept = ImplKept(hard, softs)
Next == UNCHANGED vars
Spec == Init /\ [][Next]_vars

KeptIsGreedy  == kept = RefKept(hard, softs, NSoft, {})
KeptIsMaximal == \A v \in (1..NSoft) \ kept : (hard \cap Inter({softs[k] : k \in kept}) \cap softs[v]) = {}
NeverFatal    == (hard \cap Inter({softs[k] : k \in kept})) # {}
LaterWins     == \A i, j \in 1..NSoft : (i < j /\ i \in kept /\ j \notin kept) => (hard \cap softs[j]) = {} \/ \E m \in kept : m > j
=============================================================================
