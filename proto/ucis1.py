import sys, io, contextlib
import vsc
from ucis.xml.xml_factory import XmlFactory
from ucis.report.coverage_report_builder import CoverageReportBuilder
@vsc.covergroup
class CG(object):
    def __init__(self):
        self.with_sample(dict(a=vsc.bit_t(4)))
        self.cp = vsc.coverpoint(self.a, bins={"lo": vsc.bin([0,3]), "arr": vsc.bin_array([2],[4,10])}, ignore_bins={"ig":vsc.bin(15)})
with contextlib.redirect_stdout(io.StringIO()):
    cg=CG(); cg2=CG()
    for v in (1,5,5,15): cg.sample(v)
    vsc.write_coverage_db("/tmp/proto/cov.xml")
db = XmlFactory.read("/tmp/proto/cov.xml")
rpt = CoverageReportBuilder.build(db)
for c in rpt.covergroups:
    print("type", c.name, c.coverage)
    for cp in c.coverpoints: print("  cp", cp.name, cp.coverage, [(b.name,b.count) for b in cp.bins], [ (b.name,b.count) for b in getattr(cp,'ignore_bins',[])])
    for i in c.covergroups:
        print("  inst", i.name, i.coverage, [[(b.name,b.count) for b in cp.bins] for cp in i.coverpoints])
print(vsc.get_coverage_report(details=True))
