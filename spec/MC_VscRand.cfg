CONSTANT MaxLevel = 5
SPECIFICATION Spec
VIEW View
CONSTRAINT Bound
INVARIANT TypeOK
INVARIANT ClassBlocksHoldAfterOk
PROPERTY FailIffUnsat
PROPERTY NonRandFrozen
PROPERTY TogglePerInstance
PROPERTY SoftNeverFatal
CHECK_DEADLOCK FALSE
