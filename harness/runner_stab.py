"""C09 driver: runs one history in several fresh processes that differ in hash seed, interleaved unrelated
activity and diagnostic settings, and concatenates what they recorded.  RandStability.tla (TLC) judges."""
import json
import os
import subprocess
import sys

from . import worlds

ROOT = os.path.dirname(os.path.dirname(os.path.abspath(__file__)))


def run_scenario(scn, seed=0):
    W = {"cls": {e["id"]: e.get("cls", "free") for e in scn["world"]["population"]}}
    for op in scn["ops"]:
        # a module-level call with its own RandState is a stream of its own, over the class of the root object
        if op["op"] == "call" and op["call"].get("stream"):
            W["cls"][op["call"]["stream"]] = W["cls"][op["call"]["roots"][0]]
        if op["op"] in ("mk", "snap_u", "restore_u"):
            W["cls"]["u:" + op["name"]] = scn["world"]["population"][0]["cls"]      # user-held states: streams over the one class
    events = []
    for i, env in enumerate(scn["envs"]):
        e = dict(os.environ)
        e["PYTHONHASHSEED"] = str(env.get("hashseed", 0))
        for k in ("VSC_DEBUG", "VSC_SOLVEFAIL_DEBUG", "VSC_CAPTURE_SRCINFO"):
            e.pop(k, None)
        if env.get("srcinfo"):
            e["VSC_CAPTURE_SRCINFO"] = "1"
        if env.get("env_debug"):
            e["VSC_SOLVEFAIL_DEBUG"] = "1"
        e["VERIF_REPO"] = os.environ.get("VERIF_REPO", "/repo")
        try:
            p = subprocess.run([sys.executable, "-m", "harness.child_stab"], input=json.dumps({"scn": scn, "env": env}),
                               capture_output=True, text=True, env=e, cwd=ROOT, timeout=300)
        except subprocess.TimeoutExpired:
            events.append({"op": "run_begin", "env": json.dumps(env)})
            events.append({"op": "call", "o": "?", "desc": "", "pre": {}, "post": {}, "exc": "crash:timeout", "glob": 0, "explicit": True})
            continue
        events.append({"op": "run_begin", "env": json.dumps(env, sort_keys=True)})
        if p.returncode != 0:
            return {"id": scn["id"], "world": W, "events": events,
                    "harness_error": "child failed (%d): %s" % (p.returncode, p.stderr[-1500:])}
        events.extend(json.loads(p.stdout))
    return {"id": scn["id"], "world": W, "events": events}
