"""Writes the constant inputs of the model-checking configurations (worlds as JSON, read by the MC_* modules
with JsonDeserialize at constant level).  Run by harness.setup."""
import json
import os
import sys

ROOT = os.path.dirname(os.path.dirname(os.path.abspath(__file__)))
sys.path.insert(0, os.path.join(os.environ.get("VERIF_REPO", "/repo"), "src"))


def world_flags():
    from .worlds import F, B, E, lit
    from .fam_expr import fld
    A = {"base": "", "fields": [fld("a", 2, False), fld("b", 2, False), fld("k", 2, False, rand=False, init=1)],
         "blocks": [{"name": "c1", "dynamic": False, "body": [E(B("lt", F("a"), F("b")))]},
                    {"name": "c2", "dynamic": False, "body": [E(B("ne", F("a"), F("k"))), {"k": "soft", "e": B("eq", F("b"), lit(2))}]},
                    {"name": "d1", "dynamic": True, "body": [E(B("eq", F("b"), lit(3)))]},
                    {"name": "d2", "dynamic": True, "body": [E(B("eq", F("a"), lit(0)))]}]}
    Bc = {"base": "A", "fields": [], "blocks": [{"name": "c1", "dynamic": False, "body": [E(B("gt", F("a"), F("b")))]}]}
    return {"classes": {"A": A, "B": Bc},
            "population": [{"id": "o1", "cls": "A"}, {"id": "o2", "cls": "A"}, {"id": "o3", "cls": "B"}]}


def inlines():
    from .worlds import F, B, E, lit
    return {"none": [], "a_eq_k": [E(B("eq", F("a"), F("k")))], "d1": [E({"k": "dyn", "o": "", "b": "d1"})],
            "d1_or_d2": [E(B("or", {"k": "dyn", "o": "", "b": "d1"}, {"k": "dyn", "o": "", "b": "d2"}))],
            "contra": [E(B("lt", F("a"), F("a")))], "soft_b1": [{"k": "soft", "e": B("eq", F("b"), lit(1))}]}


def world_lists():
    """W-lists: class L {a rand 1 bit; l: random fixed-size list of 1-bit elements (starts with one element, at most three);
    nl: non-random list; blocks f1: every element <= a; u1: unique(l); m1: a in nl}; objects o1, o2"""
    from .worlds import F, B, E, lit
    from .fam_expr import fld
    L = {"base": "", "fields": [fld("a", 1, False),
                                {"name": "l", "kind": "list", "w": 1, "signed": False, "rand": True, "init": [0], "randsz": False, "cap": 3},
                                {"name": "nl", "kind": "list", "w": 1, "signed": False, "rand": False, "init": [1], "randsz": False, "cap": 2}],
         "blocks": [{"name": "f1", "dynamic": False,
                     "body": [{"k": "foreach", "l": "l", "v": "i", "it": True, "idx": False, "of": "",
                               "body": [E(B("le", {"k": "it", "v": "i", "p": ""}, F("a")))]}]},
                    {"name": "u1", "dynamic": False, "body": [{"k": "uniq", "args": [{"k": "lst", "p": "l"}]}]},
                    {"name": "m1", "dynamic": False, "body": [E({"k": "in", "e": F("a"), "items": [{"k": "l", "p": "nl"}], "neg": False})]}]}
    return {"classes": {"L": L}, "population": [{"id": "o1", "cls": "L"}, {"id": "o2", "cls": "L"}]}


def main():
    from . import worlds
    out = os.path.join(ROOT, "spec", "mc")
    os.makedirs(out, exist_ok=True)
    w = world_flags()
    json.dump({"world": worlds.flatten(w), "src": w, "inlines": inlines()}, open(os.path.join(out, "w_flags.json"), "w"))
    print("wrote", os.path.join(out, "w_flags.json"))
    w = world_lists()
    json.dump({"world": worlds.flatten(w), "src": w}, open(os.path.join(out, "w_lists.json"), "w"))
    print("wrote", os.path.join(out, "w_lists.json"))


if __name__ == "__main__":
    main()
