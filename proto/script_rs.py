import sys, time, io, contextlib
sys.path.insert(0,'/tmp/shim'); import btorshim
import vsc
from vsc.model.solve_failure import SolveFailure

class ScriptedRS:
    """RandState stand-in: draws come from a script; unscripted draws take the lowest value. Logs (lo,hi,val)."""
    def __init__(self, script):
        self.script=list(script); self.pos=0; self.log=[]; self.rng=self
    def clone(self): return self
    def randint(self, lo, hi):
        lo=int(lo); hi=int(hi)
        if hi<lo: lo,hi=hi,lo
        if self.pos < len(self.script):
            v = lo + self.script[self.pos]
            assert v<=hi
        else:
            v = lo
        self.pos+=1
        self.log.append((lo,hi,v))
        return v

@vsc.randobj
class A:
    def __init__(self):
        self.a = vsc.rand_bit_t(3)
        self.b = vsc.rand_bit_t(3)
    @vsc.constraint
    def c(self):
        self.a < self.b
        vsc.solve_order(self.a, self.b)

def explore(mk, maxpaths=200000):
    """DFS over all draw sequences"""
    outcomes={}
    stack=[[]]
    n=0
    while stack:
        script=stack.pop()
        o=mk()
        rs=ScriptedRS(script)
        o.set_randstate(rs)
        try:
            o.randomize(); res=(o.a,o.b)
        except SolveFailure:
            res="FAIL"
        log=rs.log
        # the path followed = log values; branch on first unscripted positions
        # children: for position len(script) (first unscripted draw), all alternative values>lo
        n+=1
        # weight of path = prod 1/(hi-lo+1)
        w=1.0
        for lo,hi,v in log: w/= (hi-lo+1)
        outcomes.setdefault(res,0.0); outcomes[res]+=0  # placeholder
        # expand: for each position p>=len(script), siblings with value != lo
        for p in range(len(script), len(log)):
            lo,hi,v=log[p]
            for alt in range(1, hi-lo+1):
                stack.append([x[2]-x[0] for x in log[:p]]+[alt])
        outcomes[res]+=w
        if n>=maxpaths: break
    return n,outcomes
t0=time.time()
n,out=explore(A)
print("paths",n,"time",time.time()-t0)
tot=sum(out.values()); print("total prob",tot)
pa={}
for k,v in out.items():
    if k!="FAIL": pa[k[0]]=pa.get(k[0],0)+v
print(sorted(pa.items()))
print(sorted(out.items())[:40])
