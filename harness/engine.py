"""Generic check engine: scenarios -> isolated execution against /repo -> TLC trace validation
(batches in parallel) + TLC model-checking jobs -> verdict lines, exit status, evidence file."""
import concurrent.futures as cf
import hashlib
import json
import os
import shutil
import sys
import time

from . import pool, tlc

ROOT = os.path.dirname(os.path.dirname(os.path.abspath(__file__)))
# a run against a scratch copy of the repository (VERIF_REPO, used for seeded changes) keeps its output and evidence apart:
# what is committed under evidence/ always comes from /repo itself
ALT = os.path.realpath(os.environ.get("VERIF_REPO", "/repo")) != "/repo"
OUT = os.environ.get("VERIF_OUT") or os.path.join(ROOT, "out_alt" if ALT else "out")      # (VERIF_OUT: a sweep over the seeded changes keeps apart)
EVID = os.path.join(OUT, "evidence") if ALT else os.path.join(ROOT, "evidence")
FINDINGS = os.path.join(ROOT, "known_findings.json")


def load_findings():
    if not os.path.exists(FINDINGS):
        return []
    return json.load(open(FINDINGS))["findings"]


def sha(obj):
    return hashlib.sha1(json.dumps(obj, sort_keys=True).encode()).hexdigest()[:12]


def failure_key(res, verdict):
    """identify a failure: scenario family/id, event op, failing clauses, and the exception call
    sites seen in the failing event (so that a different violation gets a different key)"""
    l = verdict[2]
    ev = res["events"][l - 1] if 0 < l <= len(res["events"]) else {}
    sites = set()
    if isinstance(ev.get("exc"), str) and ev["exc"] not in ("none", "SolveFailure"):
        sites.add(ev["exc"])
    for k in (ev.get("other_exc") or {}):
        sites.add(k)
    if ev.get("post", {}).get("err"):
        sites.add(ev["post"]["err"])
    return {"scenario": res["id"], "op": verdict[3], "clauses": sorted(verdict[4]), "sites": sorted(sites),
            "event": l}


def matches(entry, key):
    m = entry["match"]
    if "clauses" in m and sorted(m["clauses"]) != key["clauses"]:
        return False
    if "clauses_subset" in m and not set(key["clauses"]) <= set(m["clauses_subset"]):
        return False
    if "sites" in m and not (set(key["sites"]) and set(key["sites"]) <= set(m["sites"])):
        return False
    if "scenario_prefix" in m and not any(key["scenario"].startswith(p) for p in m["scenario_prefix"]):
        return False
    if "scenario" in m and key["scenario"] not in m["scenario"]:
        return False
    return True


class Check:
    def __init__(self, pid, tier, seed):
        self.pid, self.tier, self.seed = pid, tier, seed
        self.t0 = time.time()
        self.workdir = os.path.join(OUT, pid, tier)
        os.makedirs(self.workdir, exist_ok=True)
        if tier != "replay":
            shutil.rmtree(os.path.join(OUT, "violations", pid), ignore_errors=True)
        self.violations = []          # (key, replay path)
        self.known = {}               # finding id -> count
        self.stats = {"scenarios": 0, "accepted": 0, "events_accepted": 0, "tlc_states": 0, "tlc_transitions": 0,
                      "tlc_wall": 0.0, "crashes": 0}
        self.samples = []
        self.nontrivial = set()
        self.mc = []
        self.notes = []
        self.machinery_errors = []
        self.findings = [f for f in load_findings() if f.get("status") == "open"]
        self.extra_cov = {}

    # ------------------------------------------------------------------ trace validation
    def run_scenarios(self, scenarios, module, fn=("runner", "run_scenario"), batch_events=700, tag="t",
                      nontrivial=None, repo=None):
        """execute scenarios in isolated workers, validate with the trace spec `module`"""
        if not scenarios:
            return []
        # verdicts are keyed by scenario id: a generator that emits the same id twice (the same random choice drawn twice)
        # contributes the scenario once
        seen, uniq = set(), []
        for scn in scenarios:
            if scn["id"] not in seen:
                seen.add(scn["id"])
                uniq.append(scn)
        scenarios = uniq
        # a scenario that does not return within the limit counts as a hang of the library (process_survives); the limit is
        # generous because a loaded machine slows every scenario down
        results = pool.run_all(scenarios, seed=self.seed, fn=fn, repo=repo, per_scn_timeout=600 if self.tier == "quick" else 1500)
        self.stats["scenarios"] += len(results)
        good = []
        for scn, r in zip(scenarios, results):
            if r.get("harness_error"):
                if r.get("events"):
                    # the driver broke after it had recorded events: the recorded prefix is judged first - when the specification
                    # rejects it, the breakage is a consequence of that violation (eg a leaked expression mode makes every
                    # later read unusable); only a clean prefix makes it a machinery failure
                    r["_herr"] = r.pop("harness_error")
                    r["_scn"] = scn
                    good.append(r)
                    continue
                self.machinery_errors.append("%s: %s" % (r["id"], r["harness_error"][:2000]))
                continue
            if r.get("crash"):
                self.stats["crashes"] += 1
                key = {"scenario": r["id"], "op": "crash", "clauses": ["process_survives"], "sites": [r["crash"]], "event": 0}
                self.report(key, {"scenario": scn, "result": r})
                continue
            r["_scn"] = scn
            good.append(r)
        # batches by event volume
        batches, cur, n = [], [], 0
        for r in good:
            cost = sum(len(e.get("rows", [])) // 8 + 1 for e in r["events"])
            if cur and n + cost > batch_events:
                batches.append(cur)
                cur, n = [], 0
            cur.append(r)
            n += cost
        if cur:
            batches.append(cur)

        def one(i):
            b = batches[i]
            payload = {"scenarios": [{k: v for k, v in r.items() if k not in ("_scn", "_herr")} for r in b]}
            return tlc.validate_batch(module, payload, self.workdir, "%s%03d" % (tag, i))
        with cf.ThreadPoolExecutor(max_workers=min(12, max(1, len(batches)))) as ex:
            outs = list(ex.map(one, range(len(batches))))
        for b, (verd, st) in zip(batches, outs):
            self.stats["tlc_states"] += st.get("distinct", 0)
            self.stats["tlc_transitions"] += st.get("generated", 0)
            self.stats["tlc_wall"] += st["wall"]
            self.stats["events_accepted"] += st.get("events_accepted", 0)
            for r in b:
                v = verd[r["id"]]
                if v[1] == "PASS" and r.get("_herr"):
                    self.machinery_errors.append("%s: %s" % (r["id"], r["_herr"][:2000]))
                elif v[1] == "PASS":
                    self.stats["accepted"] += 1
                    if nontrivial is None or nontrivial(r):
                        self.nontrivial.add(sha([e for e in r["events"] if e["op"] != "construct"]))
                    if len(self.samples) < 3:
                        self.samples.append(self.sample_of(r))
                else:
                    self.report(failure_key(r, v), {"scenario": r["_scn"], "result": {k: x for k, x in r.items() if k not in ("_scn", "_herr")},
                                                    "verdict": [v[0], v[1], v[2], v[3], sorted(v[4])],
                                                    "diag": repr(v[5]) if len(v) > 5 else ""})
        return good

    @staticmethod
    def sample_of(r):
        evs = []
        for e in r["events"][:8]:
            d = {k: v for k, v in e.items() if k in ("op", "p", "v", "b", "o", "en", "exc", "call", "paths")}
            if "rows" in e:
                d["rows_n"] = len(e["rows"])
                d["rows_head"] = e["rows"][:6]
            if "post" in e and e["op"] == "call":
                d["post_v"] = e["post"].get("v")
            evs.append(d)
        return {"id": r["id"], "events": evs}

    def report(self, key, replay):
        for f in self.findings:
            if f["property"] == self.pid and matches(f, key):
                self.known[f["id"]] = self.known.get(f["id"], 0) + 1
                return
        d = os.path.join(OUT, "violations", self.pid)
        os.makedirs(d, exist_ok=True)
        path = os.path.join(d, "%s.json" % sha(key))
        replay = dict(replay)
        replay["key"] = key
        with open(path, "w") as f:
            json.dump(replay, f)
        self.violations.append((key, path))

    # ------------------------------------------------------------------ model checking
    def model_check(self, module, cfg=None, workers=8, timeout=1800, extra=(), expect_ok=True, label=None):
        r = tlc.model_check(module, cfg, workers=workers, timeout=timeout, extra=extra)
        self.stats["tlc_states"] += r["distinct"]
        self.stats["tlc_transitions"] += r["states"]
        self.stats["tlc_wall"] += r["wall"]
        self.mc.append({"module": module, "cfg": cfg or module.replace(".tla", ".cfg"), "distinct": r["distinct"],
                        "generated": r["states"], "ok": r["ok"], "wall_s": round(r["wall"], 1), "label": label or ""})
        if expect_ok and not r["ok"]:
            log = os.path.join(self.workdir, "mc_%s.log" % os.path.basename(module))
            open(log, "w").write(r["out"])
            if r["violated"] and "Invariant" in r["out"] or "violated" in r["out"]:
                # a property of the specification itself fails: design-level finding, judged by caller
                self.machinery_errors.append("spec-level check %s failed, see %s" % (module, log))
            else:
                self.machinery_errors.append("TLC failed on %s, see %s" % (module, log))
        return r

    def run_mc(self, module, consts=None, cfg=None, workers=8, timeout=3000, label=None):
        """model-check a specification module with some CONSTANT lines of its .cfg overridden (tier-dependent bounds)"""
        import re
        base = open(os.path.join(tlc.SPEC, cfg or module + ".cfg")).read()
        for k, v in (consts or {}).items():
            base, n = re.subn(r"(?m)^CONSTANT\s+%s\s*=.*$" % re.escape(k), "CONSTANT %s = %s" % (k, v), base)
            if n == 0:
                base = "CONSTANT %s = %s\n" % (k, v) + base
        path = os.path.join(self.workdir, "mc_%s_%s.cfg" % (module, self.tier))
        with open(path, "w") as f:
            f.write(base)
        return self.model_check(module + ".tla", cfg=path, workers=workers, timeout=timeout, label=label or module)

    # ------------------------------------------------------------------ finish
    def finish(self, level, rule, text_assumptions, exhaustive=False):
        wall = time.time() - self.t0
        for fid, n in sorted(self.known.items()):
            f = [x for x in self.findings if x["id"] == fid][0]
            print("KNOWN-FINDING: property=%s %s [%s x%d]" % (self.pid, f["what"], fid, n))
        for key, path in self.violations:
            print("VIOLATION property=%s replay=%s  (%s %s clauses=%s sites=%s)" % (
                self.pid, path, key["scenario"], key["op"], ",".join(key["clauses"]), ",".join(key["sites"])))
        cov = {
            "states": max(1, self.stats["tlc_states"]),
            "transitions": max(1, self.stats["tlc_transitions"]),
            "traces_validated_against_impl": self.stats["accepted"],
            "samples": self.samples or [{"note": "no accepted scenario"}],
            "evaluations": max(1, self.stats["scenarios"]),
            "distinct_nontrivial": len(self.nontrivial),
            "rule": rule,
            "events_accepted_by_spec": self.stats["events_accepted"],
            "model_checking_jobs": self.mc,
            "worker_crashes": self.stats["crashes"],
            "known_findings_reproduced": self.known,
            "exhaustive": exhaustive,
            "tlc_wall_s": round(self.stats["tlc_wall"], 1),
        }
        cov.update(self.extra_cov)
        ev = {"property_id": self.pid, "tier": self.tier, "seed": self.seed, "level": level, "coverage": cov,
              "assumptions": text_assumptions, "wall_s": round(wall, 1), "violations": len(self.violations)}
        # only the registered tiers write the evidence file; development runs of single families keep theirs apart
        evid = EVID if self.tier in ("quick", "thorough") else os.path.join(OUT, "evidence_dev")
        os.makedirs(evid, exist_ok=True)
        with open(os.path.join(evid, "%s.json" % self.pid), "w") as f:
            json.dump(ev, f, indent=1, default=lambda o: sorted(o) if isinstance(o, set) else str(o))
        if self.machinery_errors:
            for m in self.machinery_errors[:10]:
                print("MACHINERY-ERROR: " + m, file=sys.stderr)
            return 2
        print("%s %s: scenarios=%d accepted=%d events=%d tlc_states=%d known=%d violations=%d wall=%.0fs" % (
            self.pid, self.tier, self.stats["scenarios"], self.stats["accepted"], self.stats["events_accepted"],
            self.stats["tlc_states"], sum(self.known.values()), len(self.violations), wall))
        return 1 if self.violations else 0


def replay(pid, path, seed, module, fn):
    """re-execute the scenario stored in a violation replay file against the current tree and re-validate it"""
    d = json.load(open(path))
    chk = Check(pid, "replay", seed)
    chk.findings = []
    chk.run_scenarios([d["scenario"]], module, fn=fn, tag="replay")
    for key, p in chk.violations:
        print("VIOLATION property=%s replay=%s  (%s %s clauses=%s sites=%s)" % (pid, path, key["scenario"], key["op"],
                                                                              ",".join(key["clauses"]), ",".join(key["sites"])))
    if chk.machinery_errors:
        print("MACHINERY-ERROR: " + chk.machinery_errors[0], file=sys.stderr)
        return 2
    if not chk.violations:
        print("replay accepted by the specification (no violation on the current tree)")
    return 1 if chk.violations else 0
