CONSTANT W = 5
INIT Init
NEXT Next
CHECK_DEADLOCK FALSE
