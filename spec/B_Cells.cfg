CONSTANT MaxW = 4
SPECIFICATION Spec
INVARIANT AlwaysInType
INVARIANT WriteIsWrap
INVARIANT PartLocal
CHECK_DEADLOCK FALSE
