#!/bin/bash
# demo + quick check for a list of seeded changes, against a scratch worktree of /repo HEAD
for n in "$@"; do
  pid=${n%%_*}; d=/verif/seeded/$n; WT=/tmp/vr_wt_$n
  git -C /repo worktree add -q --detach $WT HEAD || continue
  PYTHONPATH=$WT/src timeout 300 /venv/bin/python $d/demo.py > /tmp/vr_clean_$n.log 2>&1; C=$?
  (cd $WT && git apply $d/patch.diff 2>/dev/null) || { echo "$n PATCH FAILED"; git -C /repo worktree remove --force $WT; continue; }
  PYTHONPATH=$WT/src timeout 300 /venv/bin/python $d/demo.py > /tmp/vr_mut_$n.log 2>&1; M=$?
  checks=$pid; [ -f "$d/also_checks" ] && checks="$pid $(cat $d/also_checks)"
  res=""
  for c in $checks; do (cd /verif && VERIF_OUT=/verif/out_seeded/$n VERIF_REPO=$WT /venv/bin/python -m harness.check $c --tier quick > /tmp/vr_$n_$c.log 2>&1); res="$res $c=$?"; done
  echo "$n demo clean=$C mutant=$M checks:$res"
  git -C /repo worktree remove --force $WT; rm -rf /verif/out_seeded/$n
done
