import sys, io, contextlib, itertools, collections, random, traceback, time
sys.path.insert(0,'/verif/proto'); import btorshim
import vsc
from vsc.model.solve_failure import SolveFailure
from vsc.impl import ctor, expr_mode

M=lambda w:(1<<w)-1
def sx(v,w): return v-(1<<w) if (v>>(w-1))&1 else v
# ---------- reference semantics (mirror of planned Expr.tla) -------------
REL={"eq","ne","lt","le","gt","ge"}
def width(e,T):
    k=e[0]
    if k=="f": return T[e[1]][0]
    if k=="lit": return 32
    if k=="bin": return 1 if e[1] in REL else max(width(e[2],T),width(e[3],T))
    if k=="not": return width(e[1],T)
def signed(e,T):
    k=e[0]
    if k=="f": return T[e[1]][1]
    if k=="lit": return True
    if k=="bin": return signed(e[2],T) and signed(e[3],T)
    if k=="not": return signed(e[1],T)
class Undef(Exception): pass
def ext(v,w_from,w_to,sg):
    if w_to<=w_from: return v & M(w_to)
    return (sx(v,w_from) if sg else v) & M(w_to)
def ev(e,env,T,cw):
    """returns (bits value, width)"""
    k=e[0]
    if k=="f":
        w=T[e[1]][0]; return env[e[1]] & M(w), w
    if k=="lit":
        w=max(cw,32); return e[1] & M(w), w
    if k=="not":
        v,w=ev(e[1],env,T,cw); return (~v)&M(w), w
    op=e[1]; w=max(cw,width(e[2],T),width(e[3],T)); sg=signed(e[2],T) and signed(e[3],T)
    a,wa=ev(e[2],env,T,w); b,wb=ev(e[3],env,T,w)
    a=ext(a,wa,w,sg); b=ext(b,wb,w,sg)
    if op in REL:
        x,y=(sx(a,w),sx(b,w)) if sg else (a,b)
        r={"eq":x==y,"ne":x!=y,"lt":x<y,"le":x<=y,"gt":x>y,"ge":x>=y}[op]
        return int(r),1
    if op=="add": return (a+b)&M(w),w
    if op=="sub": return (a-b)&M(w),w
    if op=="mul": return (a*b)&M(w),w
    if op=="and": return a&b,w
    if op=="or": return a|b,w
    if op=="xor": return a^b,w
    if op=="sll": return (a<<b)&M(w) if b<w else 0,w
    if op=="srl": return (a>>b) if b<w else 0,w
    if op in("div","mod"):
        if b==0: raise Undef()
        if sg:
            x,y=sx(a,w),sx(b,w); q=abs(x)//abs(y); q=-q if (x<0)!=(y<0) else q; r=x-q*y
            return ((q if op=="div" else r)&M(w)),w
        return ((a//b) if op=="div" else (a%b)),w
def holds(e,env,T):
    v,w=ev(e,env,T,0); return v!=0
# ---------- build real class ------------------------------------------
PY={"eq":lambda a,b:a==b,"ne":lambda a,b:a!=b,"lt":lambda a,b:a<b,"le":lambda a,b:a<=b,"gt":lambda a,b:a>b,"ge":lambda a,b:a>=b,
 "add":lambda a,b:a+b,"sub":lambda a,b:a-b,"mul":lambda a,b:a*b,"and":lambda a,b:a&b,"or":lambda a,b:a|b,"xor":lambda a,b:a^b,
 "sll":lambda a,b:a<<b,"srl":lambda a,b:a>>b,"div":lambda a,b:a/b,"mod":lambda a,b:a%b}
def emit(e,o):
    k=e[0]
    if k=="f": return getattr(o,e[1])
    if k=="lit": return e[1]
    if k=="not": return ~emit(e[1],o)
    l=emit(e[2],o)
    if isinstance(l,int): l=vsc.signed(l,32)
    return PY[e[1]](l,emit(e[3],o))
def mk(T,cons,rand=True):
    def init(self):
        for n,(w,s) in T.items():
            t=(vsc.rand_int_t if s else vsc.rand_bit_t) if rand else (vsc.int_t if s else vsc.bit_t)
            setattr(self,"f_"+n if False else n,t(w))
    def body(self):
        for c in cons: emit(c,self)
    return vsc.randobj(type("W",(object,),{"__init__":init,"blk":vsc.constraint(body)}))
def show(e):
    k=e[0]
    if k=="f": return e[1]
    if k=="lit": return str(e[1])
    if k=="not": return "~"+show(e[1])
    return "(%s %s %s)"%(show(e[2]),e[1],show(e[3]))
def table(T,cons,route):
    """returns dict assignment-> 'ok'/'fail'/'exc:..' using non-random pinned fields (route norand) or inline (route inline)"""
    names=sorted(T)
    res={}
    ctor.test_setup(); expr_mode._expr_mode.clear()
    try:
        o=mk(T,cons,rand=(route=="inline"))()
    except Exception as e:
        return {"ctor":"exc:%s:%s"%(type(e).__name__,str(e)[:50])}
    for vals in itertools.product(*[range(1<<T[n][0]) for n in names]):
        try:
            with contextlib.redirect_stdout(io.StringIO()):
                if route=="norand":
                    for n,v in zip(names,vals): setattr(o,n, sx(v,T[n][0]) if T[n][1] else v)
                    o.randomize()
                else:
                    with o.randomize_with() as it:
                        for n,v in zip(names,vals): getattr(it,n) == (sx(v,T[n][0]) if T[n][1] else v)
            r="ok"
        except SolveFailure: r="fail"
        except Exception as e:
            tb=traceback.extract_tb(e.__traceback__); fr=[f for f in tb if "/repo/src" in f.filename]
            r="exc:%s@%s:%s"%(type(e).__name__, fr[-1].filename.split("/")[-1] if fr else "?", fr[-1].name if fr else "?")
            ctor.test_setup(); expr_mode._expr_mode.clear()
        res[vals]=r
    return res
def survey(seed,n,route):
    rnd=random.Random(seed)
    classes=collections.Counter(); examples={}
    ops=["add","sub","mul","and","or","xor","sll","srl","div","mod"]
    rows=0; t0=time.time()
    for i in range(n):
        T={x:(rnd.choice([1,2,3]),rnd.random()<0.5) for x in "abc"}
        def leaf():
            return ("f",rnd.choice("abc")) if rnd.random()<0.75 else ("lit",rnd.choice([-3,-1,0,1,2,5,7]))
        op=rnd.choice(ops); rel=rnd.choice(sorted(REL))
        inner=("bin",op,leaf(),leaf())
        if rnd.random()<0.15: inner=("f",rnd.choice("abc"))
        cons=[("bin",rel,inner,leaf())]
        if rnd.random()<0.0: cons=[("not",cons[0])]
        if rnd.random()<0.2: cons=[("bin",rnd.choice(["and","or"]),cons[0],("bin",rnd.choice(sorted(REL)),leaf(),leaf()))]
        names=sorted(T)
        tab=table(T,cons,route)
        for vals,r in tab.items():
            rows+=1
            if vals=="ctor": key=("ctor",r); 
            else:
                env=dict(zip(names,vals))
                try: exp="ok" if all(holds(c,env,T) for c in cons) else "fail"
                except Undef: continue
                if r==exp: continue
                sig=tuple(sorted(set((T[x][1]) for x in "abc")))
                key=(r if r.startswith("exc") else "%s-expected-%s"%(r,exp), op if r[:3]!="exc" else "", )
            classes[key]+=1
            examples.setdefault(key,(show(cons[0]),T,vals))
    print("route",route,"programs",n,"rows",rows,"time %.1f"%(time.time()-t0))
    for k,c in classes.most_common(): print("  ",c,k,examples[k])
survey(int(sys.argv[1]),int(sys.argv[2]),sys.argv[3])
