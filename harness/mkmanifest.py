"""Regenerates /verif/MANIFEST.json from the table below (run: python -m harness.mkmanifest)."""
import json
import os

ROOT = os.path.dirname(os.path.dirname(os.path.abspath(__file__)))
TB = ("TLC 1.8 and its Json/IOUtils modules; the TLA+ reference semantics (BV/Expr) validated by MC_BV; the world->DSL "
      "compiler of the driver; CPython; Boolector being a deterministic function of its API calls")

# property id -> (technique, level text, design ref)
CHECKS = {
    "C01": ("TLA+ trace validation (Trace_VscRand) of recorded randomize calls + exhaustive pin-probe truth tables vs. Sol of the spec",
            "Every program of the grammar families is executed against the real library; each call and each row of the exhaustive "
            "pin-probe truth table (all assignments of the random fields, <=12 bits) must be a step of the TLA+ specification whose "
            "clauses ok_hard_hold / in_type / table_equal are evaluated by TLC with the bit-vector reference semantics. Exhaustive in "
            "values for small widths, sampled in programs.", "6 C01"),
    "C02": ("TLA+ trace validation: fail_iff_unsat decided by TLC enumerating the whole assignment space; exhaustive pin probes",
            "SolveFailure <=> Sol = {} is decided by TLC for every recorded call whose random fields total <=12 bits (DefSat enumerates "
            "all candidates), in both directions via partial-pin duals and full truth tables; any other exception has no enabled action.",
            "6 C02"),
    "C03": ("TLA+ trace validation of API histories (nonrand_frozen on every call, probes after every edit)",
            "Histories of sets, rand_mode toggles, rangelist/list edits and five call kinds over a two-object world with sub-objects; "
            "TLC checks after every call that every path outside UsedRand(call) in all objects is unchanged and that probe tables "
            "equal Sol computed from the current non-random values and container contents.", "6 C03"),
    "C04": ("TLA+ trace validation: list semantics of Expr.tla on the facade view; truth tables over (scalars, elements); (size, elements) candidates for random-size lists; TLC model checking of the API machine on lists (MC_VscList) whose behaviours are replayed into the library",
            "Fixed-size lists with foreach over element / index / both, index arithmetic, sum, unique, membership and literal indices get "
            "exhaustive truth tables before and after append/extend/assign/clear/setitem; random-size lists (bounded size) are called "
            "with every size pinned, TLC deciding satisfiability over all (size, elements) candidates; every call logs the "
            "len/size/index/iteration views, which must describe the one sequence held by the specification.", "6 C04"),
    "C05": ("TLA+ trace validation: SoftAccept (maximality + existence of a priority-respecting greedy order) decided by TLC over the enumerated Sol",
            "For every recorded call of the soft-constraint families TLC enumerates Sol(hard) (<=12 bits), classifies every applicable "
            "soft constraint (with its if/else/implies guards) as kept or violated at the returned values, and requires that no "
            "violated one is jointly satisfiable with the kept ones and that the kept set is the greedy result of some linear "
            "extension of 'later in the block wins, inline over class-level'; never-fatal is the C02 clause on the hard part.", "6 C05"),
    "C06": ("TLA+ trace validation: truth table of every call with inline/dynamic terms, and plain truth tables of all live instances afterwards",
            "Histories over populations of instances of one class; dynamic-constraint references are Boolean terms whose meaning in "
            "the spec is HoldsBlock on the referent object; every call's table and every later plain table must equal Sol, and "
            "nonrand_frozen covers writes to bystander instances.", "6 C06"),
    "C07": ("TLA+ trace validation: pin-probe truth tables after every constraint_mode toggle vs Sol over most-derived enabled blocks per instance",
            "Toggle/construct/call histories over a three-level class hierarchy with overridden block names and holder objects with "
            "nested and list-element instances; the spec keeps one enabled flag per (instance, block name) and resolves the "
            "most-derived block by name; each table must equal Sol.", "6 C07"),
    "C16": ("TLA+ trace validation with fault injection (every statement position of nested constraint contexts, callbacks, with-bodies, unsatisfiable calls): idle_after on every event + remainder of the trace accepted from the unchanged state; TLC model checking of the construction stacks (B_Ctor)",
            "User exceptions injected at pre/post callbacks of any composite, in with-block bodies and in constraint bodies during "
            "construction, and unsatisfiable calls, followed by constructions, calls and truth tables; every event logs the five "
            "construction stacks plus leftover override nodes and solver handles, which TLC requires to be zero.", "6 C16"),
    "C08": ("TLA+ trace validation: probes pinning every scalar of an object tree vs Sol with UsedObjs-gated sub-object blocks",
            "Trees with sibling sub-objects of one class, object lists and cross-level references by attribute chain, list index and "
            "foreach; rows are solutions, all their single-field mutations and random rows over the whole tree, so an aliased "
            "reference or a block of a non-random sub-object being enforced changes a row; free-standing calls on sub-object roots.",
            "6 C08"),
    "C09": ("TLA+ trace validation (Trace_Stab): memo keyed by (class, stream origin, call history) shared by runs in different processes/environments; TLC model checking of the reference/copy discipline of random states (B_RandState |= RandStability stream values)",
            "Each history runs in 3-4 fresh processes differing in PYTHONHASHSEED, interleaved unrelated activity and diagnostic "
            "settings; RandStability.tla models seeds, snapshots (independent copies) and restores (argument copied) as stream "
            "values and requires every observation of one key to be identical; draws from Python's global generator inside a call "
            "with an explicit state are counted and must be zero.", "6 C09"),
    "C14": ("TLA+ trace validation of exhaustive draw-path exploration (exact marginal supports) + hook payload (inferred ranges) vs TLC-enumerated Sol",
            "For micro-programs every draw sequence of randomize() is executed through a scripted RandState, giving the exact output "
            "distribution; TLC requires the support of every field's marginal to equal its feasible set and every feasible value to "
            "lie inside the range list the call actually inferred (hook), from several previous-value histories.", "6 C14"),
    "C15": ("TLA+ trace validation: pin-probe table = DistSupport /\\ Sol; exact distribution from exhaustive draw-path exploration vs weight/total; distselect/randselect for every seed",
            "Universal part by truth tables (zero-weight and unlisted values must fail); exact part by enumerating every draw "
            "sequence and comparing exact fractions with w_i/total and uniform-in-range; helpers observed for every generator "
            "value 1..total, TLC counting |{seed : result = i}| = w_i.", "6 C15"),
    "C20": ("TLA+ trace validation: identical truth tables with/without the directive; exhaustive draw-path exploration: no failing path, full support, exact uniformity, equal marginals of program pairs",
            "Exact marginals of the earlier variable from complete explorations; uniform when the feasible values fill the inferred "
            "range (hook); program pairs that differ only in how many later values accompany each earlier value must have equal "
            "marginals (memo in the specification state).", "6 C20"),
    "C10": ("TLA+ trace validation (Trace_VscCov): TLC recomputes the declarative bin partition and every counter after every sample; TLC model checking of the transcribed range-list normalisation and bin partitioning (B_Bins, B_MkColl |= Cov.tla); MC_VscCov behaviours replayed into real covergroups",
            "Random bin specifications over types of 2..8 bits, each sampled with every value of the type plus repeats and gated-off "
            "samples; every event logs all regular/ignore/illegal counters and TLC requires them to equal the counters of the "
            "specification, whose bins are Partition(Values \\ Excluded, n) from Cov.tla.", "6 C10"),
    "C11": ("TLA+ trace validation (Trace_VscCov): cross = row-major product of flat bins, incremented iff all iffs hold and every coverpoint hit",
            "Crosses of 2..3 coverpoints of mixed bin kinds with iff on cross and coverpoints, sampled with all value combinations and "
            "gated sequences; TLC checks the number of cross bins and that exactly the bin of the combination is incremented.", "6 C11"),
    "C12": ("TLA+ trace validation (Trace_VscCov): type data defined as bin-wise sum of same-structure instances; exact weighted at_least coverage; TLC model checking of the coverage machine (MC_VscCov) and of the sampling pipeline with its caches (B_CovSample |= MC_VscCov); MC_VscCov behaviours replayed into real covergroups",
            "Populations of 1..3 shapes x 1..3 instances (same and different classes, parameterised variants), interleaved creation "
            "and sampling, at_least and weight options; after every event TLC checks the instance/type partition, the sums, the "
            "coverage figures against the exact rational definition, range, monotonicity and 100 iff all covered.", "6 C12"),
    "C13": ("TLA+ trace validation (Trace_VscCov): report model, parsed text report and XML read back must equal the in-memory projection tied to the spec state",
            "Report/save events at arbitrary points of C12-style histories and over all bin kinds; three independent projections are "
            "compared by TLC with the memory projection (names, kinds, counts, percentages) which itself must equal the "
            "specification state; the following events are validated from the unchanged state (read-only).", "6 C13"),
    "C17": ("TLA+ trace validation (Trace_VscRand): callback events vs UsedObjs of the call",
            "Random 3-level object trees with object lists and random/non-random members, all call kinds, callbacks that assign "
            "non-random fields; TLC checks pre/post exactly once on exactly the used-random composites, pre before post, the solver "
            "sees the values assigned by pre_randomize, post sees final values.", "6 C17"),
    "C18": ("TLA+ trace validation (Trace_Cells): every read path after every write must equal Wrap(v, w)",
            "Exhaustive integers -2^(w+1)..2^(w+1) for small widths and boundary values up to 64 bits, through every write path "
            "(attribute, set_val, .val, constructor, list append/extend/setitem/assign, enum) and every part-select bound; TLC "
            "evaluates the bit-vector model of TypeCells.tla.", "6 C18"),
    "C19": ("TLA+ trace validation (Trace_VscCov): WildMatch / WildVals of Cov.tla vs observed hits, exhaustive value/mask pairs",
            "Every canonical (value, mask) pair of the tier's width as single wildcard bin and as wildcard bin array (with counts), "
            "multi-pattern bins and strings in three bases; each shape swept with every value; TLC decides hit iff some pattern "
            "agrees on all non-wildcard bits and the array partition.", "6 C19"),
}


def main():
    props = [json.loads(l) for l in open(os.path.join(ROOT, "properties.jsonl"))]
    m = {
        "version": 1,
        "setup_cmd": "cd /verif && /venv/bin/python -m harness.setup",
        "hooks": {
            "guard": "PYVSC_VERIF",
            "enable": "PYVSC_VERIF=1 in the environment of the check (harness.check sets it; pyvsc is imported from /repo/src, "
                      "nothing to build)",
            "baseline_off_cmd": "cd /repo && env -u PYVSC_VERIF /venv/bin/python -m pytest -ra -q -p no:cacheprovider --timeout=900 "
                                "--continue-on-collection-errors",
            "source_commits": HOOK_COMMITS,
            "add_only": True,
        },
        "engines": [{"name": "harness", "path": "/verif/harness", "serves_properties": sorted(CHECKS),
                     "kind_free_text": "Python drivers execute scenarios against the real pyvsc in isolated worker processes and "
                                       "record JSON traces; TLC (spec/*.tla) is the only judge: trace validation + model checking"}],
        "checks": [],
        "notes": "All verdicts come from TLC runs on /verif/spec. DESIGN.md explains the approach; known_findings.json lists genuine "
                 "defects (open / fixed).",
        "not_applicable": [],
    }
    for p in props:
        pid = p["id"]
        if pid in CHECKS:
            tech, text, ref = CHECKS[pid]
            m["checks"].append({
                "property_id": pid,
                "quick_cmd": "/venv/bin/python -m harness.check %s --tier quick" % pid,
                "thorough_cmd": "/venv/bin/python -m harness.check %s --tier thorough" % pid,
                "evidence_file": "/verif/evidence/%s.json" % pid,
                "replay_cmd_template": "/venv/bin/python -m harness.check %s --replay {path}" % pid,
                "engine": "harness",
                "level_claimed": {"category": "model_checking", "text": text, "design_ref": "DESIGN.md section " + ref},
                "level_note": TB,
                "technique": tech,
            })
        else:
            m["not_applicable"].append({"property_id": pid, "reason": "check not built yet (in progress; see DESIGN.md section 11)"})
    json.dump(m, open(os.path.join(ROOT, "MANIFEST.json"), "w"), indent=1)
    print("claimed:", [c["property_id"] for c in m["checks"]])


HOOK_COMMITS = ["46526c8"]

if __name__ == "__main__":
    main()
