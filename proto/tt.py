import sys, time, io, contextlib
sys.path.insert(0,'/tmp/shim'); import btorshim
import vsc
from vsc.model.solve_failure import SolveFailure

@vsc.randobj
class A:
    def __init__(self):
        self.a = vsc.rand_bit_t(4)
        self.b = vsc.rand_int_t(4)
    @vsc.constraint
    def c(self):
        (self.a - 1) < 5
        (self.b + 3) > self.a

o = A()
def sx(v,w): return v-(1<<w) if v>>(w-1) else v
M=0xffffffff
t0=time.time(); mism=0
with vsc.raw_mode():
    o.a.rand_mode=False; o.b.rand_mode=False
for a in range(16):
    for b in range(16):
        o.a = a; o.b = sx(b,4)
        try:
            with contextlib.redirect_stdout(io.StringIO()):
                o.randomize()
            ok=True
        except SolveFailure:
            ok=False
        exp = (((a-1)&M) < 5) and (((sx(b,4)+3)&M) > a)
        if ok!=exp:
            mism+=1; print("MISMATCH", a, sx(b,4), ok, exp)
print("time per call", (time.time()-t0)/256, "mism", mism)
# random path
with vsc.raw_mode():
    o.a.rand_mode=True; o.b.rand_mode=True
t0=time.time(); seen=set()
for i in range(300):
    o.randomize(); seen.add((o.a,o.b))
print("rand time per call", (time.time()-t0)/300, sorted(seen))
