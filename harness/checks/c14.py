"""C14 - no legal value is starved: inferred value ranges over-approximate the solutions."""
from .. import engine, fam_dist

LEVEL = "model_checking"


def run(tier, seed, limit=0):
    chk = engine.Check("C14", tier, seed)
    scs = fam_dist.family_starve(tier, seed)
    if limit:
        scs = scs[:limit]
    chk.run_scenarios(scs, "Trace_VscRand")
    return chk.finish(LEVEL, "micro-programs mixing random and non-random operands in both orders, field-bounded ranges, signed fields and "
                      "literals, disabled blocks, unmentioned fields, from several previous-value histories and non-random environments: "
                      "(i) hook payload - every feasible value (TLC-enumerated Sol) lies inside the range list the call actually used; "
                      "(ii) exhaustive draw-path enumeration - the support of each field's exact marginal equals its feasible set",
                      ["TLC 1.8; hook payload bound to user paths by model identity; exact path probabilities (Python Fraction)"])
