import sys, time
from fractions import Fraction
sys.path.insert(0,'/tmp/shim'); import btorshim
import vsc, random as _random
from vsc.model.solve_failure import SolveFailure
class ScriptedRS:
    def __init__(self, script):
        self.script=list(script); self.pos=0; self.log=[]; self.rng=self
    def clone(self): return self
    def randint(self, lo, hi):
        lo=int(lo); hi=int(hi)
        if hi<lo: lo,hi=hi,lo
        v = lo + (self.script[self.pos] if self.pos < len(self.script) else 0)
        assert v<=hi
        self.pos+=1; self.log.append((lo,hi,v)); return v
@vsc.randobj
class A:
    def __init__(self):
        self.a = vsc.rand_bit_t(4)
        self.w = vsc.bit_t(4, i=3)
    @vsc.constraint
    def c(self):
        vsc.dist(self.a, [vsc.weight(1, 1), vsc.weight(2, 0), vsc.weight((4,6), self.w), vsc.weight(9, 2)])
def explore(mk, get):
    outcomes={}; stack=[[]]; n=0; glob=0
    orig=_random.randint
    def spy(a,b):
        nonlocal glob; glob+=1; return orig(a,b)
    while stack:
        script=stack.pop(); o=mk(); rs=ScriptedRS(script); o.set_randstate(rs)
        _random.randint=spy
        try:
            o.randomize(); res=get(o)
        except SolveFailure: res="FAIL"
        finally: _random.randint=orig
        n+=1; w=Fraction(1)
        for lo,hi,v in rs.log: w/= (hi-lo+1)
        for p in range(len(script), len(rs.log)):
            lo,hi,v=rs.log[p]
            for alt in range(1, hi-lo+1):
                stack.append([x[2]-x[0] for x in rs.log[:p]]+[alt])
        outcomes[res]=outcomes.get(res,0)+w
    return n,outcomes,glob
t0=time.time(); n,out,glob=explore(A, lambda o:o.a)
print("paths",n,"time %.2f"%(time.time()-t0),"global random draws",glob, "sum",sum(out.values()))
print(sorted(out.items()))
