---------------------------- MODULE B_RandState -----------------------------
(***************************************************************************)
(* Mechanism-level model of random-state handling (property C09):          *)
(* RandState objects are heap cells wrapping a generator; objects and the  *)
(* user hold REFERENCES to cells.                                          *)
(*   get_randstate()   returns  clone(cell of the object)   (rand_obj.py)  *)
(*   set_randstate(rs) stores   clone(rs)                   (randobj_int)  *)
(*   first use without a state: RandState.mk() seeds a new cell from the   *)
(*                     next draw of Python's global generator              *)
(*   randomize()       advances the object's own cell                      *)
(*   vsc.randomize(..., randstate=rs) advances the user's cell rs itself   *)
(* Obligation (B |= A): the abstract stream values of RandStability.tla -  *)
(* astream[o] for objects, asnap[n] for states held by the user, each an   *)
(* <<origin, position>> pair - are exactly the values of the cells they    *)
(* refer to, for every history: a snapshot is independent of the object it *)
(* was taken from, restoring copies its argument, one state can seed any   *)
(* number of replays.  With CloneOnGet or CloneOnSet FALSE (a reference is *)
(* shared instead of a copy) TLC prints the shortest aliasing history.     *)
(***************************************************************************)
EXTENDS Naturals, Sequences, FiniteSets, TLC
CONSTANTS Objs, Names, Seeds, MaxPos, MaxDraws, MaxCells, CloneOnGet, CloneOnSet
VARIABLES cells,      \* heap of RandState objects: id -> [org, pos] (Free when no reference denotes the id)
          obj,        \* object -> id of its cell, 0 = no state yet
          snap,       \* user-held name -> id of its cell, 0 = unset
          g,          \* Python's global generator: [seed, draws]
          astream, asnap    \* abstract values (history variables of the requirement level)
vars == <<cells, obj, snap, g, astream, asnap>>

\* origins are records [k: kind, a, b]: k = "seed" (a = the seed), "global" (a = global seed, b = draws before), "none", "free"
Org(k, a, b) == [k |-> k, a |-> a, b |-> b]
None == [org |-> Org("none", 0, 0), pos |-> 0]
Free == [org |-> Org("free", 0, 0), pos |-> 0]
Ids  == 1..MaxCells
Init == /\ cells = [i \in Ids |-> Free] /\ obj = [o \in Objs |-> 0] /\ snap = [n \in Names |-> 0]
        /\ g = [seed |-> 0, draws |-> 0]
        /\ astream = [o \in Objs |-> None] /\ asnap = [n \in Names |-> None]

\* allocation takes the smallest id no reference denotes; cells that lose their last reference are collected after
\* every step, so that states differing only in garbage coincide (MaxCells > |Objs| + |Names|: an id is always free)
Used(ob, sn) == {ob[o] : o \in Objs} \cup {sn[n] : n \in Names}
FreeId(ob, sn) == CHOOSE i \in Ids : i \notin Used(ob, sn) /\ \A j \in Ids : j < i => j \in Used(ob, sn)
Collect(c, ob, sn) == [i \in Ids |-> IF i \in Used(ob, sn) THEN c[i] ELSE Free]

SeedGlobal(s) == /\ g' = [seed |-> s, draws |-> 0] /\ UNCHANGED <<cells, obj, snap, astream, asnap>>
\* unrelated use of the global generator
Noise == /\ g.draws < MaxDraws /\ g' = [g EXCEPT !.draws = @ + 1] /\ UNCHANGED <<cells, obj, snap, astream, asnap>>

\* RandState.mkFromSeed(s) kept by the user under name n
Mk(n, s) == LET v  == [org |-> Org("seed", s, 0), pos |-> 0]
                i  == FreeId(obj, snap)
                sn == [snap EXCEPT ![n] = i] IN
            /\ snap' = sn /\ cells' = Collect([cells EXCEPT ![i] = v], obj, sn) /\ asnap' = [asnap EXCEPT ![n] = v]
            /\ UNCHANGED <<obj, g, astream>>

\* o.set_randstate(snap[n])
Restore(o, n) == /\ snap[n] # 0
                 /\ LET i  == IF CloneOnSet THEN FreeId(obj, snap) ELSE snap[n]
                        ob == [obj EXCEPT ![o] = i] IN
                    obj' = ob /\ cells' = Collect([cells EXCEPT ![i] = cells[snap[n]]], ob, snap)
                 /\ astream' = [astream EXCEPT ![o] = asnap[n]]
                 /\ UNCHANGED <<snap, g, asnap>>

\* the object's state comes into being at its first use: seeded from the next draw of the global generator
CanUse(o) == obj[o] # 0 \/ g.draws < MaxDraws
Materialize(o) == IF obj[o] # 0 THEN [c |-> cells, ob |-> obj, g |-> g, a |-> astream[o]]
                  ELSE LET v == [org |-> Org("global", g.seed, g.draws), pos |-> 0]
                           i == FreeId(obj, snap) IN
                       [c |-> [cells EXCEPT ![i] = v], ob |-> [obj EXCEPT ![o] = i], g |-> [g EXCEPT !.draws = @ + 1], a |-> v]

\* snap[n] = o.get_randstate()
Snap(o, n) == /\ CanUse(o)
              /\ LET m  == Materialize(o)
                     \* (the old referent of n is released before the copy is allocated, as the assignment does)
                     j  == IF CloneOnGet THEN FreeId(m.ob, [snap EXCEPT ![n] = 0]) ELSE m.ob[o]
                     sn == [snap EXCEPT ![n] = j] IN
                 /\ snap' = sn /\ obj' = m.ob /\ g' = m.g
                 /\ cells' = Collect([m.c EXCEPT ![j] = m.c[m.ob[o]]], m.ob, sn)
                 /\ astream' = [astream EXCEPT ![o] = m.a] /\ asnap' = [asnap EXCEPT ![n] = m.a]

\* o.randomize(): draws from the object's own state
Call(o) == /\ CanUse(o)
           /\ LET m == Materialize(o) IN
              /\ m.c[m.ob[o]].pos < MaxPos
              /\ cells' = Collect([m.c EXCEPT ![m.ob[o]].pos = @ + 1], m.ob, snap) /\ obj' = m.ob /\ g' = m.g
              /\ astream' = [astream EXCEPT ![o] = [m.a EXCEPT !.pos = @ + 1]]
           /\ UNCHANGED <<snap, asnap>>

\* vsc.randomize(x, randstate=snap[n]): the user's state itself advances
FreeCall(n) == /\ snap[n] # 0 /\ cells[snap[n]].pos < MaxPos
               /\ cells' = [cells EXCEPT ![snap[n]].pos = @ + 1] /\ asnap' = [asnap EXCEPT ![n].pos = @ + 1]
               /\ UNCHANGED <<obj, snap, g, astream>>

Next == \/ \E s \in Seeds : SeedGlobal(s)
        \/ Noise
        \/ \E n \in Names, s \in Seeds : Mk(n, s)
        \/ \E o \in Objs, n \in Names : Restore(o, n) \/ Snap(o, n)
        \/ \E o \in Objs : Call(o)
        \/ \E n \in Names : FreeCall(n)
Spec == Init /\ [][Next]_vars

(* B |= A: every reference denotes a cell holding exactly the abstract stream value *)
Refines == /\ \A o \in Objs : obj[o] # 0 => cells[obj[o]] = astream[o]
           /\ \A n \in Names : snap[n] # 0 => cells[snap[n]] = asnap[n]
(* stated on the mechanism alone: no cell is shared between an object and a user-held state, nor between two objects *)
NoAliasing == /\ \A o \in Objs, n \in Names : obj[o] # 0 => obj[o] # snap[n]
              /\ \A o, p \in Objs : (o # p /\ obj[o] # 0) => obj[o] # obj[p]
(* replay: the position in a stream is all that matters - two references at the same point of the same stream hold
   equal generators, whatever happened to the other users of the state they were copied from *)
SamePointSameCell ==
  \A o, p \in Objs : (obj[o] # 0 /\ obj[p] # 0 /\ astream[o] = astream[p]) => cells[obj[o]] = cells[obj[p]]
=============================================================================
